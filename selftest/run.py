#!/venv/bin/python
"""
Self-test driver: apply one patch to a scratch copy of /repo (outside /repo and /verif), run the
repository's own tests there, run the named checks with PANE_REPO=<scratch>, report, delete the copy.

  selftest/run.py <patch.diff> C03 [C01 ...] [--tier quick|thorough] [--seed N] [--demo demo.py] [--skip-tests]

Exit status: 0 if every named check exited 1 with a VIOLATION line (mutant caught by all), 3 otherwise.
"""
import argparse
import os
import shutil
import subprocess
import sys
import tempfile

ROOT = os.path.dirname(os.path.dirname(os.path.abspath(__file__)))
PY = '/venv/bin/python'


def scratch_copy():
    d = tempfile.mkdtemp(prefix='pv-mutant-')
    for name in ('pane', 'tests', 'pyproject.toml', 'README.md'):
        src = os.path.join('/repo', name)
        if os.path.isdir(src):
            shutil.copytree(src, os.path.join(d, name), ignore=shutil.ignore_patterns('__pycache__'))
        elif os.path.exists(src):
            shutil.copy(src, d)
    return d


def run_tests(d):
    env = dict(os.environ, PYTHONPATH=d, PYTHONDONTWRITEBYTECODE='1')
    p = subprocess.run([PY, '-B', '-m', 'pytest', '-q', '-p', 'no:cacheprovider', '-x', '--timeout=300',
                        '--deselect', 'tests/test_numpy.py'], cwd=d, env=env, capture_output=True, text=True)
    last = (p.stdout.strip().splitlines() or ['?'])[-1]
    # numpy tests: 9 always fail in this environment; run them separately and compare the count
    q = subprocess.run([PY, '-B', '-m', 'pytest', '-q', '-p', 'no:cacheprovider', 'tests/test_numpy.py'],
                       cwd=d, env=env, capture_output=True, text=True)
    last_np = (q.stdout.strip().splitlines() or ['?'])[-1]
    ok = p.returncode == 0 and '9 failed' in last_np and '6 passed' in last_np
    return ok, f"{last} | numpy: {last_np}"


def main():
    ap = argparse.ArgumentParser()
    ap.add_argument('patch')
    ap.add_argument('props', nargs='+')
    ap.add_argument('--tier', default='quick')
    ap.add_argument('--seed', default='0')
    ap.add_argument('--demo')
    ap.add_argument('--skip-tests', action='store_true')
    a = ap.parse_args()
    d = scratch_copy()
    try:
        if a.demo:
            r0 = subprocess.run([PY, '-B', a.demo], env=dict(os.environ, PYTHONPATH=d), capture_output=True, text=True)
            print(f"demo on unchanged copy: exit {r0.returncode}")
        if a.patch != 'none':
            p = subprocess.run(['git', 'apply', '--whitespace=nowarn', os.path.abspath(a.patch)], cwd=d, capture_output=True, text=True)
            if p.returncode != 0:
                print("PATCH DOES NOT APPLY:", p.stderr[:500])
                return 4
        if a.demo:
            r1 = subprocess.run([PY, '-B', a.demo], env=dict(os.environ, PYTHONPATH=d), capture_output=True, text=True)
            print(f"demo on patched copy: exit {r1.returncode}  {(r1.stderr or r1.stdout).strip().splitlines()[-1:] }")
        if not a.skip_tests:
            ok, line = run_tests(d)
            print(f"repository tests on patched copy: {'PASS' if ok else 'FAIL'}  [{line}]")
        caught = True
        for prop in a.props:
            env = dict(os.environ, PANE_REPO=d, VERIF_SEED=a.seed)
            r = subprocess.run([os.path.join(ROOT, 'check'), prop, '--tier', a.tier, '--no-evidence'],
                               env=env, capture_output=True, text=True)
            lines = r.stdout.strip().splitlines()
            viol = [ln for ln in lines if ln.startswith('VIOLATION')]
            detail = [ln for ln in lines if ln.startswith('    oracle=')]
            refs = [ln.strip() for ln in lines if ln.strip().startswith('refutations[')]
            print(f"check {prop}: exit {r.returncode}  violations={len(viol)}  {' '.join(refs)[:400]}")
            for ln in detail[:2]:
                print("   ", ln.strip()[:600])
            if r.returncode == 2:
                print("   ", [ln for ln in lines if ln.startswith('INCONCLUSIVE')][:3])
            if r.returncode not in (0, 1, 2):
                print(r.stdout[-800:], r.stderr[-800:])
            caught = caught and r.returncode == 1 and bool(viol)
        return 0 if caught else 3
    finally:
        shutil.rmtree(d, ignore_errors=True)


if __name__ == '__main__':
    sys.exit(main())
