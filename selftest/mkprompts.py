#!/venv/bin/python
"""
Generate the prompts handed to the independent sub-agents that seed property-breaking changes.

  selftest/mkprompts.py <round> <worktree-root> <output-root> <prompt-dir>

Each prompt contains the text of ONE property (from properties.jsonl), the path of the agent's own scratch git
worktree of /repo and where to put its results - nothing else from /verif (not the design, not the checks, not the
earlier seeded changes). Worktrees are created by the caller with
    git -C /repo worktree add --detach <worktree-root>/<ID> HEAD
and removed (git -C /repo worktree remove --force ...) once the outputs have been copied to /verif/seeded/.
"""
import json
import os
import sys

ROOT = os.path.dirname(os.path.dirname(os.path.abspath(__file__)))

FOCUS = {
    2: "it needs something specific to manifest - an unusual input value or container kind, a particular combination of two or three options, a multi-step "
       "sequence of operations or a particular call history, a particular thread interleaving, a rarely used code path (helper types in pane/types.py, the numpy "
       "add-on, abstract collection types, Counter/defaultdict/deque, enum or Literal corner cases, stacked annotations, deep nesting), or two cooperating edits in "
       "different functions/files that each look fine alone.",
    3: "it shows only under a narrow circumstance that is nevertheless something a real user could hit: only one of the two conversion passes (the quick attempt vs "
       "the diagnostic pass), only one direction (parsing vs serialising), only one data layout or rename style, only the second and later calls, only when a value "
       "sits at a particular depth or position (last tuple slot, second union member, a mapping KEY rather than a value, a default rather than a supplied value), only "
       "for one member of a family (one stdlib scalar type, one abstract collection, one stock condition, one enum flavour, one tag layout), only for subclasses "
       "(of the dataclass, of a builtin container or scalar), or only when two library features meet (generics x inheritance, conditions x unions, custom handlers x "
       "tagged unions, aliases x rename styles, numpy x conditions, io options x unusual text). At least one of your three changes must live OUTSIDE the file that "
       "looks most obviously responsible for this property (look at pane/util.py, pane/field.py, pane/annotations.py, pane/errors.py, pane/types.py, pane/io.py, "
       "pane/addons/, and the less-travelled converter classes in pane/converters.py).",
}


# round 4: each agent is pointed at a region of the library (chosen from the repository's own layout) that is relevant to its property
REGION = {
    'C01': "pane/addons/numpy.py (array conversion: dtype handling, nested lists, scalars vs 0-d arrays) and, in pane/converters.py, TupleConverter and NestedSequenceConverter",
    'C02': "in pane/converters.py: ScalarConverter, _BASIC_CONVERTERS, DatetimeConverter, PatternConverter; in pane/util.py: data_is_sequence",
    'C03': "in pane/converters.py: PatternConverter, DatetimeConverter, NestedSequenceConverter, TupleConverter, StructConverter; pane/addons/numpy.py",
    'C04': "pane/addons/numpy.py, NestedSequenceConverter and PatternConverter in pane/converters.py, and the stock condition builders in pane/annotations.py (val_range, len_range, shape, broadcastable)",
    'C05': "pane/types.py (Range, ValueOrList, YAMLDocList and the other helper types), the into_data side of pane/addons/numpy.py, and the into_data methods of SequenceConverter / TupleConverter / StructConverter / DictConverter",
    'C06': "pane/types.py (helper types), PatternConverter, DatetimeConverter and the path / Decimal / Fraction entries of the converter tables in pane/converters.py and pane/convert.py",
    'C07': "the collect_errors methods of TupleConverter, StructConverter, SequenceConverter, DictConverter, NestedSequenceConverter in pane/converters.py, and the node classes in pane/errors.py",
    'C08': "pane/errors.py (the print_error / __str__ methods of every node class) and the wording helpers in pane/util.py (list_phrase, pluralize, remove_article and friends)",
    'C09': "pane/addons/numpy.py (in-place array operations), NestedSequenceConverter, DictConverter and PaneConverter.into_data / PaneBase.dict / __replace__ / __copy__",
    'C10': "pane/util.py (KeyCache: eviction, maxsize, key function) and the generic-subclass cache in pane/classes.py (_make_subclass / __class_getitem__)",
    'C11': "pane/util.py (flatten_union_args, type_union, replace_typevars) and UnionConverter.collect_errors / construct in pane/converters.py",
    'C12': "the Tagged annotation class in pane/annotations.py and TaggedUnionConverter.into_data / __init__ / expected in pane/converters.py",
    'C13': "the stock condition builders and combinators in pane/annotations.py (val_range, len_range, shape, broadcastable, Condition.__and__/__or__/__invert__, Condition.all/any, adjective_condition) and pane/addons/numpy.py",
    'C14': "in pane/classes.py: _make_init, PaneBase.from_dict_unchecked, make_unchecked, __post_init__ handling, default / default_factory handling in PaneConverter; in pane/field.py: Field.has_default and friends",
    'C15': "pane/field.py (Field, FieldSpec.make_field, the name-resolution parts) and PaneOptions / PaneConverter.into_data / collect_errors_struct / collect_errors_tuple in pane/classes.py",
    'C16': "in pane/classes.py: _make_ord, _make_hash / _set_hash_none, __setattr__ / __delattr__, __replace__, __copy__ / __deepcopy__, __repr__ generation",
    'C17': "pane/util.py (get_type_hints, replace_typevars, collect_typevars and friends) and _make_subclass / __class_getitem__ / PaneOptions.replace in pane/classes.py",
    'C18': "ConverterHandlers and register_converter_handler in pane/convert.py, the order of the dispatch steps inside make_converter, and the handlers plumbing of SequenceConverter / DictConverter / TupleConverter / StructConverter",
    'C19': "pane/io.py: write_json, write_yaml, from_json, from_yaml, from_yaml_all, _validate_file, and the dataclass IO methods in pane/classes.py (from_json / from_yaml / write_json / write_yaml / from_jsons / from_yamls)",
    'C20': "pane/field.py: _split_field_name, _pairwise, _CONVERT_FNS and each per-style function, and the places in pane/classes.py / pane/field.py that call rename_field (FieldSpec.make_field, PaneBase.dict)",
}
# round 5: a second region per property (the other half of the code that bears on it)
REGION5 = {
    'C01': "in pane/converters.py: DictConverter, SequenceConverter (set / frozenset / deque / abstract collection handling), LiteralConverter, StructConverter; in pane/convert.py: the _ABSTRACT_MAPPING table and the path / Decimal / Fraction / datetime entries of the converter tables",
    'C02': "in pane/classes.py: PaneConverter.try_convert, try_convert_tuple, try_convert_struct (a dataclass read positionally or by name); in pane/converters.py: TupleConverter, SequenceConverter, DictConverter, StructConverter (mapping vs sequence vs string decisions)",
    'C03': "PaneConverter in pane/classes.py (try_convert_* against collect_errors_*), and in pane/converters.py: TaggedUnionConverter, ConditionalConverter, LiteralConverter, DelegateConverter, DictConverter",
    'C04': "pane/classes.py (PaneConverter, the handling of __post_init__ failures, from_data / convert classmethods) and TaggedUnionConverter / DictConverter / SequenceConverter in pane/converters.py",
    'C05': "PaneConverter.into_data and PaneBase.into_data / dict in pane/classes.py, FieldSpec.make_field in pane/field.py (input vs output names), and the into_data methods of TaggedUnionConverter, EnumConverter, LiteralConverter, DelegateConverter",
    'C06': "convert() and into_data() in pane/convert.py, the generated __init__ (_make_init in pane/classes.py), and the handling of deque / OrderedDict / defaultdict / Counter / frozenset values in SequenceConverter and DictConverter",
    'C07': "PaneConverter.collect_errors_struct / collect_errors_tuple in pane/classes.py, and TaggedUnionConverter.collect_errors, UnionConverter.collect_errors, ConditionalConverter.collect_errors, DictConverter.collect_errors in pane/converters.py",
    'C08': "the expected() methods of every converter in pane/converters.py and pane/classes.py (they supply the wording that error messages show), TaggedUnionConverter.tag_expected, and the ErrorNode classes in pane/errors.py",
    'C09': "TaggedUnionConverter (tag stripping in both passes), PaneConverter.try_convert_struct / collect_errors_struct (aliases, duplicates, extra keys), the generated __init__ (_make_init), TupleConverter and SequenceConverter",
    'C10': "make_converter, _TypeKey and ConverterHandlers (__hash__ / __eq__ / make) in pane/convert.py, the `_converter` classmethod and converter construction of pane dataclasses in pane/classes.py, and replace_typevars in pane/util.py",
    'C11': "UnionConverter (every method) in pane/converters.py, the Union / Optional branch of make_converter in pane/convert.py, and how TaggedUnionConverter inherits from UnionConverter",
    'C12': "TaggedUnionConverter.try_convert / collect_errors in pane/converters.py and the Tagged branch of _annotated_converter in pane/convert.py",
    'C13': "ConditionalConverter in pane/converters.py, _annotated_converter in pane/convert.py (stacked annotations), and the ready-made aliases in pane/types.py (PositiveInt, NonNegativeFloat, FiniteFloat, ListNotEmpty, ...)",
    'C14': "PaneConverter.try_convert_struct / try_convert_tuple (defaults, default factories, set-field record) and PaneBase.from_data / from_dict_unchecked / make_unchecked in pane/classes.py, FieldSpec.make_field and Field in pane/field.py",
    'C15': "PaneConverter.try_convert (layout selection), try_convert_struct, try_convert_tuple and their collect_errors counterparts in pane/classes.py",
    'C16': "_make_eq, the generated __repr__, __copy__ / __deepcopy__ / __replace__ and __setattr__ / __delattr__ in pane/classes.py",
    'C17': "_process (field collection and ordering, keyword-only handling) and PaneBase.__init_subclass__ (option handling) in pane/classes.py, FieldSpec.replace_typevars in pane/field.py",
    'C18': "FieldSpec / Field `converter=` handling in pane/field.py, PaneConverter.__init__ (how handler chains are combined) in pane/classes.py, and how UnionConverter / TaggedUnionConverter / DelegateConverter / EnumConverter pass handlers on, in both directions",
    'C19': "the IO methods of PaneBase in pane/classes.py (from_json / from_yaml / from_jsons / from_yamls / write_json / write_yaml and how they pass options on) and into_data / from_data in pane/convert.py as used by pane/io.py",
    'C20': "the uses of rename styles in pane/classes.py (PaneOptions in_rename / out_rename, tuple-valued in_rename, PaneBase.dict(rename=)) and in FieldSpec.make_field (pane/field.py)",
}
# round 6: the break must come about where two features of the library meet
PAIRS6 = {
    'C01': "generic dataclasses (G[int], fields typed by a type variable) x containers of them; and Literal / Enum types x mapping keys and set elements",
    'C02': "unions x containers (Union[List[int], str], Optional[Dict[...]]); and conditions (Annotated[T, cond]) x the scalar kinds they wrap",
    'C03': "tagged unions x conditions; dataclasses x unions (a dataclass as a union member, a union-typed field); ValueOrList / Range helper types x everything",
    'C04': "custom handlers (custom=, register_converter_handler, the `_converter` protocol) x bad data; generic dataclasses x bad data; from_yaml / from_json x types whose construction can fail",
    'C05': "tagged unions x renaming / aliases / layouts of their variants; numpy arrays x containers and dataclass fields; Decimal / Fraction / datetime / path values x mapping keys",
    'C06': "dataclass instances nested in containers x layouts (tuple out_format, kw_only fields); values of subclasses (of a dataclass, of int/str) x the declared base type; Counter / defaultdict / deque values",
    'C07': "dataclass fields x nested containers (a bad element three levels down); unions x dataclasses (member trees); conditions x containers; tuple layout x unions",
    'C08': "very long / nested / non-ASCII / multi-line offending values x every node type; causes (exceptions raised by conditions, constructors, __post_init__) x nesting in unions and products",
    'C09': "custom handlers (user converters that receive the caller's objects) x containers; dataclass constructor x mutable arguments (lists, dicts, arrays, other instances); unions x tagged unions",
    'C10': "custom handlers x the converter cache (same type, different handlers; same handlers object edited; handler identity vs equality); generic dataclasses x the cache; threads x first use of a type",
    'C11': "unions x conditions (a conditioned member, a condition on the whole union); unions x dataclasses with overlapping layouts; unions x custom handlers; unions nested in unions through type aliases / Annotated",
    'C12': "tagged unions x inheritance (variants sharing a base, a variant subclassing another); tagged unions x renaming of the tag field (rename styles, aliases, out_name); tagged unions inside containers and Optional",
    'C13': "conditions x unions / Optional (condition on a union, union of conditioned members); conditions x dataclass fields with defaults; conditions x custom handlers; conditions x numpy arrays",
    'C14': "default factories x inheritance and generics; the set-field record x copy / replace / nested dataclasses; __post_init__ x inheritance; constructor x keyword-only and positional mixing",
    'C15': "aliases x rename styles x inheritance (a subclass re-declaring a field); tuple layout x defaults x keyword-only; allow_extra x duplicates; layouts x nested dataclasses",
    'C16': "equality / ordering / hashing x inheritance (subclass vs base instances, added fields); x generic parametrisations; x fields holding unhashable or NaN values; frozen x __post_init__",
    'C17': "generics x tagged unions / unions of generic classes; inheritance x field options (aliases, converter=, exclude, init=False redeclared); generic re-parameterisation x class options",
    'C18': "custom handlers x generic dataclasses; x ValueOrList / helper types; x enum / Literal / conditions; x into_data of inferred types (Any, bare containers); x inheritance of the class-level `custom`",
    'C19': "IO options x dataclass methods vs module functions; from_yaml_all x unions / Optional / dataclasses; custom handlers x IO; unusual but legal YAML/JSON text (anchors, flow collections, exponents, unicode escapes) x typed reading",
    'C20': "rename styles x inheritance; x tagged unions (the tag field's name); x aliases and explicit names; x dict(set_only=..., rename=...); x nested dataclasses with different styles",
}
FOCUS[6] = ("it arises where TWO features of the library meet - each works on its own, the combination is what breaks (under the change). "
            "Feature combinations to aim at for this task: {region}. Read how the two sides talk to each other (which object is passed, which option is "
            "forwarded or forgotten, which cache or key is shared) and break that seam; every one of your three changes must need such a combination to show.")
FOCUS[7] = ("it shows only through an entry point or calling convention OTHER than the everyday `pane.convert(value, T)` / `pane.from_data(value, T)` on a "
            "fresh type: the dataclass classmethods and instance methods (Cls.from_data, Cls.from_obj, Cls.from_json / from_yaml / from_jsons / from_yamls, "
            "x.into_data, x.dict, x.write_json / write_yaml, Cls.make_unchecked, Cls.from_dict_unchecked, x.__replace__, copy / deepcopy / pickle of instances), "
            "Converter objects obtained from pane.convert.make_converter and used directly (.convert, .try_convert, .collect_errors, .into_data, .expected), the "
            "keyword variants (custom=, ty= of into_data and of the writers, set_only= / rename= of dict), into_data with the type left out (inferred from the "
            "value), the module-level pane.io functions as opposed to the methods, behaviour at class-definition time (what a class statement accepts or "
            "refuses, and when), and introspection that users rely on (inspect.signature of the class, repr, __pane_info__ fields, the ConvertError.tree "
            "attribute and str() of the error). Pick entry points that make sense for THIS property; each of your three changes must leave the everyday path "
            "correct and break one of these other ways in.")
FOCUS[8] = ("it needs a RARE COINCIDENCE to show - assume the library is already being exercised by a randomised differential harness that builds random "
            "types (all the supported kinds, nested a few levels), feeds them random member and near-member values through every public entry point, and "
            "compares with a reference model; your change should be one such a harness is LEAST likely to stumble on, while still being something a real "
            "user will eventually hit. Ideas: a value that coincides with a particular constant, size or threshold (lengths >= some N, ints beyond 2**53 or "
            "2**63, negative zero / NaN / inf, strings with particular characters, whitespace, unicode case folding, surrogate or combining characters, "
            "keys that are equal but not identical or have equal hashes, containers that are empty or have exactly one element or contain themselves / "
            "repeated identical objects), a particular ORDER of things (fields declared in a certain order, union members in a certain order, classes "
            "defined in a certain order, a type used first in one position and then another), identity vs equality of type objects or values, object "
            "lifetime (a type garbage-collected and another created at the same address; weak references), recursion depth, or an option combination of "
            "three or more features. Each of your three changes must need such a coincidence; say precisely in meta.json which one.")
FOCUS[10] = ("it RE-INTRODUCES, in a new guise, a defect that recent maintenance repaired. Run `git log --oneline -40` and `git show <commit>` in your worktree: the "
             "commits whose message starts with 'fix:' each repaired a real defect (read their messages and diffs). Pick fixes that bear on THIS property and "
             "write changes that a later refactoring, optimisation or clean-up could plausibly make which bring back that defect or a close cousin of it - NOT a "
             "literal revert of the commit (no `git revert`, do not restore the old lines verbatim): move the repaired logic somewhere it no longer covers one of "
             "the cases, special-case a fast path around it, change a neighbouring function so that the repaired path is bypassed for some inputs, undo the "
             "repair for one layout / one entry point / one direction only. Each of your three changes must relate to a DIFFERENT fix commit; name the commit "
             "in meta.json ('relates_to').")
FOCUS[11] = ("it depends on HISTORY: a single call in a fresh process stays correct, and the break shows only after a particular sequence of operations "
             "in one process - a type first used one way and then another (parsed then serialised, used as a field type then directly, with handlers then "
             "without), a converter object reused after a conversion that FAILED or raised part-way, an error tree printed or inspected twice, an instance "
             "copied / replaced / mutated and then serialised or compared, a class subclassed or parametrised AFTER its converter was first built, a handler "
             "registered after first use, state left behind by an exception (a half-filled cache entry, a flag not reset), a generator or iterator consumed "
             "twice, or two threads making the first use of a type at once. Say in meta.json exactly which sequence is needed.")
FOCUS[4] = ("it lives in the region of the library named below and shows only under a narrow circumstance that a real user could still hit "
            "(one pass or one direction only, one member of a family, a second call, an unusual but legal input or option combination). "
            "REGION for this task: {region}. All three changes must be made inside that region; read it closely first and look for behaviour that the "
            "existing tests do not pin down.")


def main():
    rnd, wtroot, outroot, pdir = int(sys.argv[1]), sys.argv[2], sys.argv[3], sys.argv[4]
    os.makedirs(pdir, exist_ok=True)
    props = [json.loads(l) for l in open(os.path.join(ROOT, 'properties.jsonl'))]
    for p in props:
        pid = p['id']
        wt = f"{wtroot}/{pid}"
        out = f"{outroot}/{pid}"
        text = f"""You are helping test a verification harness by playing a careless (but realistic) maintainer of the open-source Python library `pane` (hexane360/pane: type-directed conversion between JSON/YAML interchange data and typed Python values, plus dataclasses).

You have your own scratch git worktree of the library at {wt} (HEAD is the current state). Work ONLY inside {wt} and write your results ONLY under {out}/ . Do not read or write anything under /verif or /repo, and do not commit anything. IMPORTANT: never use `git stash` (the stash is shared between worktrees of other people working in parallel); to get back to a clean tree use `git -C {wt} diff > somefile; git -C {wt} checkout -- .` and `git -C {wt} apply somefile` to re-apply.

Running things: use `/venv/bin/python` and ALWAYS set `PYTHONPATH={wt}` so that `import pane` resolves to your worktree (check with `PYTHONPATH={wt} /venv/bin/python -c "import pane; print(pane.__file__)"`). The library's own test suite is run with
    cd {wt} && PYTHONPATH={wt} /venv/bin/python -m pytest -q -p no:cacheprovider
On the unchanged tree it reports `9 failed, 218 passed` (the 9 failures are numpy NDArray tests that always fail in this environment and are ignored). "Passing the existing tests" means: those same 218 tests still pass (the same 9 may keep failing, nothing else may fail). There is no network.

The behavioural property under study (this is all you get; read the library's code and docs to understand how it is implemented):

    {pid}: {p['title']}
    {p['statement']}

Your task: produce THREE different source changes to the library (files under {wt}/pane/), each of which
  (a) still imports/compiles and leaves all 218 passing tests passing,
  (b) BREAKS the property above (a user relying on the property would be wrong for some inputs), and
  (c) is SUBTLE: {FOCUS[4].replace('{region}', (REGION if rnd == 4 else REGION5).get(pid, 'anywhere')) if rnd in (4, 5) else (FOCUS[6].replace('{region}', PAIRS6[pid]) if rnd == 6 else FOCUS[rnd])} Prefer breaks that a reviewer skimming the diff would wave through (a plausible refactor, micro-optimisation, "simplification", defensive check, caching, or a fix for some other imagined problem). Avoid the most obvious edits (flipping a comparison in the main path, deleting a whole check that every input exercises). The three changes must touch different mechanisms (different functions / code paths). Keep each change small (typically 1-15 lines).

For each change k in 1, 2, 3 write into {out}/k/ :
  - patch.diff : output of `git -C {wt} diff` for that change alone (it must apply with `git apply` to a clean checkout of HEAD),
  - demo.py   : a small standalone program which, run as `PYTHONPATH=<tree> /venv/bin/python demo.py`, exits with a NON-zero status (assertion failure or the like) when <tree> has the change applied and exits 0 on the unchanged tree. It must import only pane, the standard library, numpy or yaml,
  - meta.json : {{"property": "{pid}", "summary": "<one or two sentences: what was changed>", "needs": "<what specific input / configuration / sequence is needed for the break to show>", "files": [..]}}
After saving each change, restore the worktree with `git -C {wt} checkout -- .` before starting the next one, and at the end make sure `git -C {wt} status --short` is empty.
Before saving a change, verify yourself: tests still 218 passed with the change; demo.py fails with the change and passes without it; `git diff` contains only your own edit.

Finish with a short report listing the three changes (one line each) and confirming the verification you did. If you cannot find three, deliver as many as you can.
"""
        if rnd >= 11:
            text += ("\nNOTE (this overrides the text above): time is short. Deliver exactly ONE change (directory k=1 only) - the best one you can find "
                     "within roughly eight minutes of work; wherever the text above says three changes, read one. Run the test suite once at the end, not "
                     "repeatedly.\n")
        open(os.path.join(pdir, pid + '.txt'), 'w').write(text)
    print('wrote', len(props), 'prompts to', pdir)


if __name__ == '__main__':
    main()
