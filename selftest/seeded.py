#!/venv/bin/python
"""
Validate and run the seeded property-breaking changes kept under /verif/seeded/<id>/.

  selftest/seeded.py [ids...] [--checks C01,C03] [--tier quick] [--jobs 4]

For each seeded change: apply patch.diff to a scratch copy of /repo (outside /repo and /verif), confirm that
(1) the repository's own tests still pass, (2) demo.py fails with the change and passes without it, then run the
quick check of the property it targets (and any --checks given) with PANE_REPO=<scratch>. Results are written to
selftest/RESULTS.json and selftest/RESULTS.md. The scratch copy is removed immediately afterwards.
"""
import argparse
import concurrent.futures
import json
import os
import shutil
import subprocess
import sys
import tempfile

ROOT = os.path.dirname(os.path.dirname(os.path.abspath(__file__)))
PY = '/venv/bin/python'
sys.path.insert(0, os.path.join(ROOT, 'selftest'))
from run import scratch_copy, run_tests  # noqa: E402


def one(sid, extra_checks, tier, seed='0'):
    d = os.path.join(ROOT, 'seeded', sid)
    meta = json.load(open(os.path.join(d, 'meta.json')))
    prop = meta['property']
    res = {'id': sid, 'property': prop, 'summary': meta.get('summary', '')[:300], 'needs': meta.get('needs', '')[:300]}
    clean = scratch_copy()
    try:
        r0 = subprocess.run([PY, '-B', os.path.join(d, 'demo.py')], env=dict(os.environ, PYTHONPATH=clean), capture_output=True, text=True, timeout=300)
        res['demo_on_unchanged'] = r0.returncode
    finally:
        shutil.rmtree(clean, ignore_errors=True)
    scratch = scratch_copy()
    try:
        p = subprocess.run(['git', 'apply', '--whitespace=nowarn', os.path.join(d, 'patch.diff')], cwd=scratch, capture_output=True, text=True)
        if p.returncode != 0:
            res['error'] = 'patch does not apply: ' + p.stderr[:200]
            return res
        r1 = subprocess.run([PY, '-B', os.path.join(d, 'demo.py')], env=dict(os.environ, PYTHONPATH=scratch), capture_output=True, text=True, timeout=300)
        res['demo_on_changed'] = r1.returncode
        ok, line = run_tests(scratch)
        res['repo_tests_pass'] = ok
        res['repo_tests'] = line
        res['checks'] = {}
        for c in [prop] + [c for c in extra_checks if c != prop]:
            env = dict(os.environ, PANE_REPO=scratch, VERIF_SEED=str(seed))
            r = subprocess.run([os.path.join(ROOT, 'check'), c, '--tier', tier, '--no-evidence'], env=env, capture_output=True, text=True)
            lines = r.stdout.strip().splitlines()
            refs = [ln.strip() for ln in lines if ln.strip().startswith('refutations[')]
            res['checks'][c] = {'exit': r.returncode, 'violation_lines': sum(1 for ln in lines if ln.startswith('VIOLATION')),
                                'refutations': refs[:6]}
        res['valid'] = bool(res.get('repo_tests_pass')) and res.get('demo_on_unchanged') == 0 and res.get('demo_on_changed', 0) != 0
        res['caught_by_own_check'] = res['checks'][prop]['exit'] == 1 and res['checks'][prop]['violation_lines'] > 0
        res['caught_by'] = sorted(c for c, v in res['checks'].items() if v['exit'] == 1 and v['violation_lines'] > 0)
        return res
    finally:
        shutil.rmtree(scratch, ignore_errors=True)


def main():
    ap = argparse.ArgumentParser()
    ap.add_argument('ids', nargs='*')
    ap.add_argument('--checks', default='')
    ap.add_argument('--tier', default='quick')
    ap.add_argument('--jobs', type=int, default=3)
    ap.add_argument('--no-write', action='store_true')
    ap.add_argument('--seed', default='0', help='VERIF_SEED for the checks (results are only written for seed 0)')
    a = ap.parse_args()
    ids = a.ids or sorted(x for x in os.listdir(os.path.join(ROOT, 'seeded')) if os.path.isdir(os.path.join(ROOT, 'seeded', x)))
    extra = [c for c in a.checks.split(',') if c]
    results = []
    with concurrent.futures.ThreadPoolExecutor(max_workers=a.jobs) as ex:
        for res in ex.map(lambda s: one(s, extra, a.tier, a.seed), ids):
            results.append(res)
            print(f"{res['id']:8s} valid={res.get('valid')} tests={res.get('repo_tests_pass')} demo={res.get('demo_on_unchanged')}/{res.get('demo_on_changed')} "
                  f"caught_by={res.get('caught_by')} exits={[(c, v['exit']) for c, v in res.get('checks', {}).items()]} {res.get('error', '')}", flush=True)
    if a.no_write or a.seed != '0':
        return
    path = os.path.join(ROOT, 'selftest', 'RESULTS.json')
    old = {}
    if os.path.exists(path):
        old = {r['id']: r for r in json.load(open(path))}
    for r in results:
        if r['id'] in old and 'checks' in old[r['id']] and 'checks' in r:
            merged = dict(old[r['id']]['checks'])
            merged.update(r['checks'])
            r['checks'] = merged
            r['caught_by'] = sorted(c for c, v in merged.items() if v['exit'] == 1 and v['violation_lines'] > 0)
        old[r['id']] = r
    allr = [old[k] for k in sorted(old)]
    json.dump(allr, open(path, 'w'), indent=1)
    with open(os.path.join(ROOT, 'selftest', 'RESULTS.md'), 'w') as f:
        f.write("# Seeded property-breaking changes: which checks catch which\n\n")
        f.write("Produced by `selftest/seeded.py` (quick tier, seed 0). `valid` = repository tests still pass with the change, demo fails with it and passes without it.\n\n")
        f.write("| id | property | valid | caught by own check | caught by | what was changed |\n|---|---|---|---|---|---|\n")
        for r in allr:
            f.write(f"| {r['id']} | {r['property']} | {r.get('valid')} | {r.get('caught_by_own_check')} | {', '.join(r.get('caught_by', []))} | {r['summary'][:160].replace('|', '/')} |\n")
        n = len(allr)
        nv = sum(1 for r in allr if r.get('valid'))
        nc = sum(1 for r in allr if r.get('valid') and r.get('caught_by_own_check'))
        f.write(f"\n{n} seeded changes, {nv} valid, {nc} of the valid ones caught by the quick check of their own property.\n")


if __name__ == '__main__':
    main()
