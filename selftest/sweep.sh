#!/bin/sh
# [CHECKS='05 06'] selftest/sweep.sh <tier> <seeds...> : every check on the unchanged tree, per seed; prints one line per run
tier="$1"; shift
cd "$(dirname "$0")/.." || exit 2
for seed in "$@"; do
  for i in ${CHECKS:-01 02 03 04 05 06 07 08 09 10 11 12 13 14 15 16 17 18 19 20}; do
    start=$(date +%s)
    out=$(VERIF_SEED=$seed ./check C$i --tier "$tier" --no-evidence 2>&1); rc=$?
    end=$(date +%s)
    echo "seed=$seed C$i tier=$tier exit=$rc wall=$((end-start))s $(echo "$out" | grep -c '^VIOLATION') violations $(echo "$out" | grep '^INCONCLUSIVE' | head -2 | tr '\n' ' ')"
    if [ $rc -ne 0 ]; then echo "$out" | grep -A1 '^VIOLATION' | cut -c1-700 | head -6; fi
  done
done
