"""
Import `pane` from $PANE_REPO (default /repo) and expose its modules.

`pane.convert` / `pane.field` as package attributes are the *functions*
convert() / field(); the modules are fetched through importlib.
"""
import importlib
import os
import sys

PANE_REPO = os.path.realpath(os.environ.get('PANE_REPO', '/repo'))
VERIF_ROOT = os.path.dirname(os.path.dirname(os.path.abspath(__file__)))

if PANE_REPO not in sys.path[:1]:
    sys.path.insert(0, PANE_REPO)
sys.dont_write_bytecode = True

_deps = os.path.join(VERIF_ROOT, '.deps')
if os.path.isdir(_deps) and _deps not in sys.path:
    sys.path.append(_deps)

import pane  # noqa: E402

if not os.path.realpath(pane.__file__).startswith(PANE_REPO + os.sep):
    raise RuntimeError(f"pane imported from {pane.__file__}, expected under {PANE_REPO}")

m_convert = importlib.import_module('pane.convert')
m_converters = importlib.import_module('pane.converters')
m_classes = importlib.import_module('pane.classes')
m_field = importlib.import_module('pane.field')
m_errors = importlib.import_module('pane.errors')
m_util = importlib.import_module('pane.util')
m_annotations = importlib.import_module('pane.annotations')
m_types = importlib.import_module('pane.types')
m_io = importlib.import_module('pane.io')

from_data = m_convert.from_data
into_data = m_convert.into_data
convert = m_convert.convert
make_converter = m_convert.make_converter
ConverterHandlers = m_convert.ConverterHandlers
ConvertError = m_errors.ConvertError
ParseInterrupt = m_errors.ParseInterrupt
UnsupportedAnnotation = m_errors.UnsupportedAnnotation
PaneBase = m_classes.PaneBase
Converter = m_converters.Converter
pfield = m_classes.field
KW_ONLY = m_util.KW_ONLY
