"""Shared helpers for property modules: observing a call, describing outcomes."""
import warnings

from . import env
from .ctx import short
from .deepeq import deep_typed_eq

warnings.simplefilter('ignore')


class Outcome:
    __slots__ = ('kind', 'val', 'exc')

    def __init__(self, kind, val=None, exc=None):
        self.kind = kind        # 'value' | 'converr' | 'escape'
        self.val = val
        self.exc = exc

    def brief(self):
        if self.kind == 'value':
            return f"returned {short(self.val, 200)} ({type(self.val).__name__})"
        if self.kind == 'converr':
            return f"ConvertError: {short(str(self.exc), 200)}"
        return f"ESCAPE {type(self.exc).__name__}: {short(str(self.exc), 200)}"


def observe(f, *a, **kw) -> Outcome:
    try:
        return Outcome('value', f(*a, **kw))
    except env.ConvertError as e:
        return Outcome('converr', exc=e)
    except RecursionError as e:
        return Outcome('escape', exc=e)
    except Exception as e:
        return Outcome('escape', exc=e)


def same_outcome(a: Outcome, b: Outcome):
    if a.kind != b.kind:
        return False, f"{a.brief()} vs {b.brief()}"
    if a.kind == 'value':
        ok, why = deep_typed_eq(a.val, b.val)
        if not ok:
            return False, why
        return deep_typed_eq(b.val, a.val)
    if a.kind == 'converr':
        try:
            if str(a.exc) != str(b.exc):
                return False, "error text differs"
        except Exception:
            pass
        return True, ''
    return (type(a.exc) is type(b.exc)), f"{a.brief()} vs {b.brief()}"


def build_type(ty, rng=None):
    """Build the Python type; returns (obj, None) or (None, exception)."""
    from .tyast import build
    try:
        return build(ty, rng), None
    except Exception as e:
        return None, e
