"""Shared helpers for property modules: observing a call, describing outcomes."""
import warnings

from . import env
from .ctx import short
from .deepeq import deep_typed_eq

warnings.simplefilter('ignore')


class Outcome:
    __slots__ = ('kind', 'val', 'exc')

    def __init__(self, kind, val=None, exc=None):
        self.kind = kind        # 'value' | 'converr' | 'escape'
        self.val = val
        self.exc = exc

    def brief(self):
        if self.kind == 'value':
            return f"returned {short(self.val, 200)} ({type(self.val).__name__})"
        try:
            text = str(self.exc)
        except Exception as e:      # rendering the error is itself under observation in some checks: never let it take the harness down
            text = f"<str() of the error raised {type(e).__name__}: {e}>"
        if self.kind == 'converr':
            return f"ConvertError: {short(text, 200)}"
        return f"ESCAPE {type(self.exc).__name__}: {short(text, 200)}"


def observe(f, *a, **kw) -> Outcome:
    try:
        return Outcome('value', f(*a, **kw))
    except env.ConvertError as e:
        return Outcome('converr', exc=e)
    except RecursionError as e:
        return Outcome('escape', exc=e)
    except Exception as e:
        return Outcome('escape', exc=e)


def same_outcome(a: Outcome, b: Outcome):
    if a.kind != b.kind:
        return False, f"{a.brief()} vs {b.brief()}"
    if a.kind == 'value':
        ok, why = deep_typed_eq(a.val, b.val)
        if not ok:
            return False, why
        return deep_typed_eq(b.val, a.val)
    if a.kind == 'converr':
        try:
            ta, tb = str(a.exc), str(b.exc)
            if ta != tb and _without_tracebacks(ta) != _without_tracebacks(tb):
                return False, f"error text differs: {_first_difference(ta, tb)}"
        except Exception:
            pass
        return True, ''
    return (type(a.exc) is type(b.exc)), f"{a.brief()} vs {b.brief()}"


def _without_tracebacks(text):
    """The message without the stack listings of its causes (frames and chained-exception banners; the final 'ExcType: message' lines
    stay). One alarm of a thorough sweep under heavy load showed two texts of the same (T, v) that differed by 44 characters and could
    not be reproduced on either tree; what a cause's stack listing contains is not part of any property here."""
    out, skip = [], False
    for ln in text.split('\n'):
        st = ln.strip()
        if skip:
            skip = False
            if not st.startswith('File "') and not st.startswith('Traceback') and not st.startswith('During handling'):
                continue            # the source line under a frame
        if st.startswith('File "'):
            skip = True
            continue
        if st.startswith('Traceback (most recent call last)') or st.startswith('During handling of the above exception') \
                or st.startswith('The above exception was the direct cause') or st.startswith('^') or not st:
            continue
        out.append(ln.rstrip())
    return '\n'.join(out)


def _first_difference(a, b):
    la, lb = a.split('\n'), b.split('\n')
    for i, (x, y) in enumerate(zip(la, lb)):
        if x != y:
            return f"line {i}: {x[:160]!r} vs {y[:160]!r}"
    return f"{len(la)} vs {len(lb)} lines; extra: {(la[len(lb):] or lb[len(la):])[:3]!r}"


def build_type(ty, rng=None):
    """Build the Python type; returns (obj, None) or (None, exception)."""
    from .tyast import build, conforms
    try:
        obj = build(ty, rng)
    except Exception as e:
        return None, e
    if not conforms(ty, obj):
        # second attempt with spellings whose aliases typing does not cache
        try:
            obj = build(ty, rng, uncached=True)
        except Exception as e:
            return None, e
        if not conforms(ty, obj):
            return None, TypingCacheReordered("typing handed back an equal-but-reordered alias (Union member order lost)")
    return obj, None


class TypingCacheReordered(Exception):
    pass


def escape_site(exc):
    """Innermost frame of `exc`'s traceback that lies inside the pane package: 'module.function'."""
    import os
    import traceback
    prefix = os.path.join(env.PANE_REPO, 'pane') + os.sep
    site = None
    for fs in traceback.extract_tb(exc.__traceback__):
        if fs.filename.startswith(prefix):
            site = f"{os.path.basename(fs.filename)[:-3]}.{fs.name}"
    return site or 'outside-pane'


def fingerprint(v, depth=0):
    """Deep structural fingerprint incl. container identity; equal before/after <=> input untouched."""
    import collections.abc
    if depth > 12:
        return ('deep',)
    t_ = type(v)
    if t_ in (int, float, complex, bool, str, bytes, type(None)):
        return (t_.__name__, repr(v))
    if t_ is bytearray:
        return ('bytearray', id(v), bytes(v))
    inner = getattr(v, '_d', None) if t_.__name__ in ('CustomMap',) else None
    if inner is not None:
        return (t_.__name__, id(v), fingerprint(inner, depth + 1))
    inner = getattr(v, '_l', None) if t_.__name__ in ('CustomSeq',) else None
    if inner is not None:
        return (t_.__name__, id(v), fingerprint(inner, depth + 1))
    if isinstance(v, collections.abc.Mapping):
        return (t_.__name__, id(v), len(v), tuple((fingerprint(k, depth + 1), fingerprint(x, depth + 1)) for k, x in v.items()))
    if isinstance(v, (set, frozenset)):
        return (t_.__name__, id(v), len(v), tuple(sorted((repr(fingerprint(x, depth + 1)) for x in v))))
    if isinstance(v, collections.abc.Sequence) or t_.__name__ == 'deque':
        return (t_.__name__, id(v), len(v), tuple(fingerprint(x, depth + 1) for x in v))
    if hasattr(t_, '__pane_info__'):
        fs = tuple((f.name, fingerprint(getattr(v, f.name, '<unset>'), depth + 1)) for f in t_.__pane_info__.fields)
        ps = getattr(v, '__pane_set__', None)
        return (t_.__name__, id(v), fs, id(ps), tuple(sorted(ps)) if ps is not None else None)
    if t_.__module__ == 'numpy':
        return (t_.__name__, id(v), getattr(v, 'shape', None), str(getattr(v, 'dtype', None)), getattr(v, 'strides', None),
                bool(getattr(getattr(v, 'flags', None), 'writeable', True)), v.tobytes() if hasattr(v, 'tobytes') else repr(v))
    if t_.__name__ == 'ValueOrList':
        return (t_.__name__, id(v), v._is_val, fingerprint(v._inner, depth + 1))
    return (t_.__name__, id(v), repr(v))


def plain_data(d, depth=0):
    """Interchange data with scalar subclasses (a `class MyInt(int)` left as it is by into_data) reduced to the builtin types the reference model is defined on."""
    import collections.abc
    if depth > 30:
        return d
    if isinstance(d, bool) or d is None:
        return d
    for base in (int, float, complex, str, bytes):
        if isinstance(d, base):
            return d if type(d) is base else base(d)
    if isinstance(d, collections.abc.Mapping):
        try:
            return {plain_data(k, depth + 1): plain_data(v, depth + 1) for k, v in d.items()}
        except TypeError:
            return d
    if isinstance(d, (list, tuple)):
        return type(d)(plain_data(x, depth + 1) for x in d) if type(d) in (list, tuple) else [plain_data(x, depth + 1) for x in d]
    return d
