"""
Run the repository's own tests with the monitors installed:

    cd /repo && PYTHONPATH=/verif /venv/bin/python -m pytest -q -p no:cacheprovider -p pv.pytest_plugin

C03's pass-agreement observer, C11's union hook and C10's stale-hit monitor observe every conversion the
unit tests perform. A monitor firing here is either too strict or a defect the tests do not assert.
"""
import collections


class _Ctx:
    """Minimal stand-in for pv.ctx.Ctx that only collects."""

    def __init__(self):
        self.counters = collections.Counter()
        self.violations = []

    def count(self, name, n=1):
        self.counters[name] += n

    def case(self, *a, **kw):
        pass

    def mark(self, *a, **kw):
        pass

    def violation(self, oracle, sub, case, witness, mech=None, detail=None):
        self.violations.append((oracle, mech, witness))


CTX = _Ctx()


def pytest_configure(config):
    from pv import env, monitors, drive   # noqa: F401
    from pv.props import c03, c10, c11
    monitors.install()
    monitors.observers.append(c03.make_observer(CTX))
    monitors.observers.append(c11.make_hook(CTX))
    c10.install_cache_monitor()
    config._pv = (monitors, c10)


def pytest_runtest_setup(item):
    from pv import monitors
    monitors.install()      # converter classes defined by test modules


def pytest_terminal_summary(terminalreporter, exitstatus, config):
    monitors, c10 = config._pv
    tr = terminalreporter
    tr.write_line(f"[pv monitors] shadowed try_convert calls: {CTX.counters.get('shadowed_calls', 0)}, union hook checks: {CTX.counters.get('hook_checked', 0)}, "
                  f"cache hits/misses: {c10.stats['hits']}/{c10.stats['misses']}, stale hits: {len(c10.stale)}")
    seen = set()
    for oracle, mech, wit in CTX.violations:
        if (oracle, mech) in seen:
            continue
        seen.add((oracle, mech))
        tr.write_line(f"[pv monitors] FIRED {oracle} / {mech}: {str(wit)[:400]}")
    if not CTX.violations and not c10.stale:
        tr.write_line("[pv monitors] silent on the repository's own tests")
