"""
Executable reference model of "which interchange values denote a member of T, and what is the
typed image" — written from docs/index.md, docs/using/*.md and the property statements.
It never imports or calls a pane converter.  Three-valued: ACC(value) / REJ / UNS(reason).
UNS cells are places the documentation does not settle; they are counted, never judged.
"""
import collections
import collections.abc
import datetime
import decimal
import fractions
import os
import pathlib
import re

from .deepeq import Inst, Factory
from .tyast import Ty, py_class
from . import conds as C

ACC, REJ, UNS = 'accept', 'reject', 'unspec'


class R:
    __slots__ = ('v', 'val', 'why')

    def __init__(self, v, val=None, why=None):
        self.v = v
        self.val = val
        self.why = why

    def __repr__(self):
        if self.v == ACC:
            return f"ACC({self.val!r})"
        return f"{self.v.upper()}({self.why})" if self.why else self.v.upper()


def acc(val): return R(ACC, val)
def rej(why=None): return R(REJ, why=why)
def uns(why): return R(UNS, why=why)


UNSPEC_TABLE = {
    'bool-as-number': "bool offered where int/float/complex/Decimal/Fraction (or a subclass) is expected: Python bool is a subclass of int; the statement only forbids int->bool",
    'literal-equal-other-kind': "Literal[...] offered a value equal to a listed literal but of another kind (1 vs True vs 1.0)",
    'lenient-number-string': "Decimal/Fraction offered a string with surrounding whitespace or underscores (stdlib constructors are lenient)",
    'tag-equal-other-kind': "tag value equal to a declared tag but of another kind (1 vs True)",
    'python-name-not-configured': "mapping key is the Python field name while rename/in_names/class in_rename configure other input names",
    'any-array-leaves': "numpy array of Any leaves with mixed leaf kinds",
    'enum-lookup-other-kind': "enum value matched by equality across kinds (1 vs 1.0 vs True)",
    'dict-key-collision': "two distinct data keys converting to equal typed keys",
    'value-holds-nonhashable-set-member': "set element whose typed image is unhashable only through a nested UNS",
}
unspec_uses = collections.Counter()


def _u(key):
    unspec_uses[key] += 1
    return uns(key)


def is_seq(v):
    return isinstance(v, collections.abc.Sequence) and not isinstance(v, (str, bytes, bytearray))


def is_map(v):
    return isinstance(v, collections.abc.Mapping)


_PATH_RESULT = {
    'PurePosixPath': pathlib.PurePosixPath, 'PurePath': pathlib.PurePath, 'Path': pathlib.Path,
    'PosixPath': pathlib.PosixPath, 'PathLike': pathlib.PurePath,
}


def _try(f, *a):
    try:
        return acc(f(*a))
    except Exception as e:
        return rej(f"{type(e).__name__}")


def _lenient(s):
    return s != s.strip() or '_' in s


def spec(ty: Ty, v):
    k = ty.k
    f = _DISPATCH.get(k)
    if f is None:
        return uns(f"kind {k} not modelled")
    return f(ty, v)


# ---- scalars ---------------------------------------------------------------------------------

def _int(ty, v):
    if type(v) is bool: return _u('bool-as-number')
    if type(v) is int: return acc(v)
    return rej()


def _float(ty, v):
    if type(v) is bool: return _u('bool-as-number')
    if type(v) in (int, float): return _try(float, v)
    return rej()


def _complex(ty, v):
    if type(v) is bool: return _u('bool-as-number')
    if type(v) in (int, float, complex): return _try(complex, v)
    return rej()


def _bool(ty, v):
    return acc(v) if type(v) is bool else rej()


def _str(ty, v):
    return acc(v) if type(v) is str else rej()


def _bytes(ty, v):
    return acc(bytes(v)) if type(v) in (bytes, bytearray) else rej()


def _bytearray(ty, v):
    return acc(bytearray(v)) if type(v) in (bytes, bytearray) else rej()


def _none(ty, v):
    return acc(None) if v is None else rej()


def _decimal(ty, v):
    if type(v) is bool: return _u('bool-as-number')
    if type(v) is str and _lenient(v): return _u('lenient-number-string')
    if type(v) in (int, str, float): return _try(decimal.Decimal, v)
    return rej()


def _fraction(ty, v):
    if type(v) is bool: return _u('bool-as-number')
    if type(v) is str and _lenient(v): return _u('lenient-number-string')
    if type(v) in (int, str, float): return _try(fractions.Fraction, v)
    return rej()


def _dt(cls):
    def f(ty, v):
        if type(v) is str:
            return _try(cls.fromisoformat, v)
        return rej()
    return f


def _path(ty, v):
    if type(v) is str:
        return _try(_PATH_RESULT[ty.x['cls']], v)
    return rej()


def _pattern(ty, v):
    of = ty.x.get('of') or 'str'
    if of == 'str':
        return _try(re.compile, v) if type(v) is str else rej()
    return _try(re.compile, bytes(v)) if type(v) in (bytes, bytearray) else rej()


def _any(ty, v):
    return acc(v)


def _cc(ty, v):
    from .tyast import CountryCode, CountryCodeConverter
    return acc(CountryCode(v)) if type(v) is str and v in CountryCodeConverter.countries else rej()


def _sub(ty, v):
    cls = py_class(ty)
    base = ty.x['base']
    if base == 'int':
        if type(v) is bool: return _u('bool-as-number')
        return _try(cls, v) if type(v) is int else rej()
    if base == 'float':
        if type(v) is bool: return _u('bool-as-number')
        return _try(lambda x: cls(float(x)), v) if type(v) in (int, float) else rej()
    if base == 'str':
        return _try(cls, v) if type(v) is str else rej()
    if base == 'bytes':
        return _try(cls, v) if type(v) in (bytes, bytearray) else rej()
    return uns('sub base')


# ---- containers -------------------------------------------------------------------------------

def _elems(ety, v):
    """Element-wise conversion. Returns (verdict, list)."""
    out, pending = [], None
    for x in v:
        r = spec(ety, x)
        if r.v == REJ:
            return rej('element'), None
        if r.v == UNS:
            pending = r
        out.append(r.val)
    if pending is not None:
        return pending, None
    return None, out


def _seqlike(ctor):
    def f(ty, v):
        if not is_seq(v): return rej()
        bad, out = _elems(ty.a[0], v)
        if bad is not None: return bad
        return _try(ctor, out)
    return f


def _set(ty, v):
    ctor = set if ty.x['res'] == 'set' else frozenset
    return _seqlike(ctor)(ty, v)


def _tup(ty, v):
    if not is_seq(v) or len(v) != len(ty.a): return rej()
    out, pending = [], None
    for c, x in zip(ty.a, v):
        r = spec(c, x)
        if r.v == REJ: return rej()
        if r.v == UNS: pending = r
        out.append(r.val)
    return pending or acc(tuple(out))


def _dictlike(ty, v, kty, vty, ctor):
    if not is_map(v): return rej()
    d, pending = {}, None
    for kk, vv in v.items():
        rk, rv = spec(kty, kk), spec(vty, vv)
        if rk.v == REJ or rv.v == REJ: return rej()
        if rk.v == UNS: pending = rk
        if rv.v == UNS: pending = rv
        if pending is None:
            try:
                if rk.val in d:
                    pending = _u('dict-key-collision')
                d[rk.val] = rv.val
            except TypeError:
                return rej('unhashable key')
    return pending or _try(ctor, d)


def _dict(ty, v):
    res = ty.x.get('res', 'dict')
    ctor = {'dict': dict, 'OrderedDict': collections.OrderedDict,
            'defaultdict': lambda d: collections.defaultdict(None, d)}[res]
    return _dictlike(ty, v, ty.a[0], ty.a[1], ctor)


def _counter(ty, v):
    return _dictlike(ty, v, ty.a[0], Ty('int'), collections.Counter)


def _struct(ty, v):
    if not is_map(v): return rej()
    keys = ty.x['keys']
    d, pending = {}, None
    for kk, vv in v.items():
        try:
            if kk not in keys: return rej('unknown key')
        except TypeError:
            return rej()
        r = spec(ty.a[keys.index(kk)], vv)
        if r.v == REJ: return rej()
        if r.v == UNS: pending = r
        d[kk] = r.val
    if any(kk not in v for kk in keys): return rej('missing')
    return pending or acc(d)


def _union(ty, v):
    for m in ty.a:
        r = spec(m, v)
        if r.v == ACC: return r
        if r.v == UNS: return r
    return rej()


def _lit(ty, v):
    other_kind = False
    for x in ty.x['vals']:
        try:
            same = (x == v)
        except Exception:
            same = False
        if same is True:
            if type(x) is type(v): return acc(v)
            other_kind = True
    return _u('literal-equal-other-kind') if other_kind else rej()


_ENUM_LEAF = {int: 'int', float: 'float', str: 'str', bool: 'bool', type(None): 'none', bytes: 'bytes',
              complex: 'complex'}


def enum_inner(ty):
    seen = []
    for (_, val) in ty.x['members']:
        t_ = type(val)
        if t_ not in seen: seen.append(t_)
    kids = []
    for t_ in seen:
        if t_ in _ENUM_LEAF: kids.append(Ty(_ENUM_LEAF[t_]))
        elif t_ is tuple: kids.append(Ty('seq', [Ty('any')], bare=True))
        else: return None
    return kids[0] if len(kids) == 1 else Ty('union', kids)


def _enum(ty, v):
    inner = enum_inner(ty)
    if inner is None: return uns('enum value kind')
    r = spec(inner, v)
    if r.v != ACC: return r
    cls = py_class(ty)
    other_kind = False
    for m in cls:
        try:
            same = m.value == r.val and hash(m.value) == hash(r.val)
        except TypeError:
            return rej('unhashable')
        if same:
            if type(m.value) is type(r.val): return acc(m)
            other_kind = True
    return _u('enum-lookup-other-kind') if other_kind else rej()


def _cond(ty, v):
    r = spec(ty.a[0], v)
    if r.v != ACC: return r
    for c in ty.x['conds']:
        try:
            ok = bool(C.pred(c)(r.val))      # (an array-valued comparison has no truth value: that is a raising predicate)
        except Exception:
            return rej('predicate raised')
        if not ok: return rej('condition')
    return r


def tagged_extract(ty, v):
    """(tag, body) | None when the layout shape is wrong."""
    tagname, ext = ty.x['tag'], ty.x['external']
    if not is_map(v): return None
    if ext is False:
        if tagname not in v: return None
        body = {kk: vv for kk, vv in v.items() if kk != tagname}
        return v[tagname], body
    if ext is True:
        if len(v) != 1: return None
        return next(iter(v.items()))
    tk, ck = ext
    if len(v) != 2 or tk not in v or ck not in v: return None
    return v[tk], v[ck]


def tagged_variant(ty, tag):
    """index of variant | None (unknown / unhashable) | 'uns'"""
    other_kind = False
    try:
        hash(tag)
    except TypeError:
        return None
    for i, m in enumerate(ty.a):
        tv = m.x['spec'].tagval
        try:
            same = tv == tag and hash(tv) == hash(tag)
        except Exception:
            same = False
        if same:
            if type(tv) is type(tag): return i
            other_kind = True
    return 'uns' if other_kind else None


def _tagged(ty, v):
    ex = tagged_extract(ty, v)
    if ex is None: return rej('layout')
    tag, body = ex
    i = tagged_variant(ty, tag)
    if i is None: return rej('unknown tag')
    if i == 'uns': return _u('tag-equal-other-kind')
    return spec(ty.a[i], body)


# ---- dataclasses ------------------------------------------------------------------------------

def style_name(name, style):
    """Independent renamer for snake_case identifiers (the domain the harness generates)."""
    words = name.split('_')
    if style == 'snake': return '_'.join(words)
    if style == 'scream': return '_'.join(w.upper() for w in words)
    if style == 'kebab': return '-'.join(words)
    if style == 'camel': return words[0] + ''.join(w[:1].upper() + w[1:] for w in words[1:])
    if style == 'pascal': return ''.join(w[:1].upper() + w[1:] for w in words)
    raise ValueError(style)


def in_names(S, f):
    """(accepted set, unspecified set) of mapping keys for field f of class-model S."""
    in_rename = S.opt('in_rename')
    renamed = tuple(style_name(f.name, s) for s in in_rename) if in_rename is not None else (f.name,)
    if f.rename is not None:
        accepted = {f.rename}
    elif f.aliases is not None:
        accepted = set(renamed) | set(f.aliases)
    elif f.in_names is not None:
        accepted = set(f.in_names)
    else:
        accepted = set(renamed)
    unspec = {f.name} - accepted
    return accepted, unspec


def out_name(S, f):
    if f.out_name is not None: return f.out_name
    if f.rename is not None: return f.rename
    o = S.opt('out_rename')
    return style_name(f.name, o) if o is not None else f.name


def _default(f):
    if f.dflt == 'val': return f.dval
    if f.dflt == 'fac': return Factory(f.dval())
    raise KeyError(f.name)


def _post_init_rejects(S, values, set_fields=()):
    pi = S.post_init
    if pi == 'raise': return True
    if isinstance(pi, tuple) and pi[0] == 'raise_if_set':
        return pi[1] in set_fields
    if isinstance(pi, tuple) and pi[0] == 'raise_if':
        val = values.get(pi[1])
        if isinstance(val, Factory): val = val.product
        try:
            return bool(val == pi[2])
        except Exception:
            return False
    return False


def _dc(ty, v):
    S = ty.x['spec']
    cls = py_class(ty)
    fields = S.ordered_fields()
    init_fields = [f for f in fields if f.init]
    values, set_fields, pending = {}, set(), None
    if is_seq(v):
        if 'tuple' not in S.opt('in_format'): return rej('tuple layout disabled')
        pos = [f for f in init_fields if not S.is_kw(f)]
        required = sum(1 for f in pos if not f.has_default())
        if not (required <= len(v) <= len(pos)): return rej('length')
        for f, x in zip(pos, v):
            r = spec(f.ty, x)
            if r.v == REJ: return rej(f"field {f.name}")
            if r.v == UNS: pending = r
            values[f.name] = r.val
            set_fields.add(f.name)
    elif is_map(v):
        if 'struct' not in S.opt('in_format'): return rej('struct layout disabled')
        amap, umap = {}, {}
        for f in init_fields:
            a, u = in_names(S, f)
            for n in a: amap.setdefault(n, f)
            for n in u: umap.setdefault(n, f)
        for kk, vv in v.items():
            try:
                f = amap.get(kk)
            except TypeError:
                return rej('unhashable key')
            if f is None:
                if kk in umap:
                    pending = _u('python-name-not-configured')
                    continue
                if not S.opt('allow_extra'): return rej('extra key')
                continue
            if f.name in set_fields: return rej('duplicate')
            r = spec(f.ty, vv)
            if r.v == REJ: return rej(f"field {f.name}")
            if r.v == UNS: pending = r
            values[f.name] = r.val
            set_fields.add(f.name)
    else:
        return rej('kind')
    if pending is not None:
        return pending
    for f in init_fields:
        if f.name not in values:
            if not f.has_default(): return rej(f"missing {f.name}")
            values[f.name] = _default(f)
    for f in fields:
        if not f.init and f.dflt == 'val':
            values[f.name] = f.dval
    if _post_init_rejects(S, values, set_fields): return rej('post_init')
    return acc(Inst(cls, values, set_fields))


# ---- numpy / helper types -----------------------------------------------------------------------

def _ndarray(ty, v):
    import numpy
    dt = ty.x.get('dtype')
    leaf = Ty({'int': 'int', 'float': 'float', 'complex': 'complex', 'bool': 'bool', 'str': 'str'}[dt]) if dt else Ty('any')
    kinds = set()

    class _Bad(Exception):
        pass

    pend = []

    def walk(x):
        if is_seq(x):
            return [walk(y) for y in x]
        r = spec(leaf, x)
        if r.v == REJ: raise _Bad()
        if r.v == UNS: pend.append(r)
        kinds.add(type(x))
        return r.val

    def shape(x, dim=0):
        if not isinstance(x, list): return ()
        shapes = [shape(y) for y in x]
        if not shapes: return (0,)
        if any(s != shapes[0] for s in shapes): raise _Bad()
        return (len(shapes), *shapes[0])

    try:
        nested = walk(v)
        if pend: return pend[0]
        shape(nested)
    except _Bad:
        return rej()
    if dt is None and not kinds <= {int, float}:
        return _u('any-array-leaves')
    if dt is None and len(kinds) > 1:
        return _u('any-array-leaves')
    return _try(numpy.array, nested)


def _vol(ty, v):
    from pane.types import ValueOrList
    r = spec(ty.a[0], v)
    if r.v == ACC: return acc(ValueOrList(r.val, True))
    if r.v == UNS: return r
    r = _seqlike(list)(Ty('list', [ty.a[0]]), v)
    if r.v == ACC: return acc(ValueOrList(r.val, False))
    return r


_DISPATCH = {
    'int': _int, 'float': _float, 'complex': _complex, 'bool': _bool, 'str': _str, 'bytes': _bytes,
    'bytearray': _bytearray, 'none': _none, 'decimal': _decimal, 'fraction': _fraction,
    'date': _dt(datetime.date), 'time': _dt(datetime.time), 'datetime': _dt(datetime.datetime),
    'path': _path, 'pattern': _pattern, 'any': _any, 'sub': _sub, 'cc': _cc,
    'list': _seqlike(list), 'seq': _seqlike(tuple), 'deque': _seqlike(collections.deque), 'set': _set,
    'tup': _tup, 'dict': _dict, 'counter': _counter, 'struct': _struct, 'union': _union, 'lit': _lit,
    'enum': _enum, 'cond': _cond, 'tagged': _tagged, 'dc': _dc, 'ndarray': _ndarray, 'vol': _vol,
}
