"""
Witness minimisation for typed-value oracles (C05/C06): descend through the type AST and the typed
value together to the deepest sub-position where a predicate still fails, so that a mechanism
classifier sees a small witness.
"""
import collections.abc

from .tyast import Ty, py_class, build


def children(ty: Ty, x):
    """(sub-type AST, typed sub-value, label) triples of the direct constituents of typed value x : ty."""
    k = ty.k
    out = []
    try:
        if k in ('list', 'seq', 'deque', 'set'):
            for i, e in enumerate(x):
                out.append((ty.a[0], e, f"[{i}]"))
        elif k == 'tup':
            for i, (c, e) in enumerate(zip(ty.a, x)):
                out.append((c, e, f"[{i}]"))
        elif k == 'dict':
            for kk, vv in x.items():
                out.append((ty.a[0], kk, "<key>"))
                out.append((ty.a[1], vv, f"[{kk!r}]"))
        elif k == 'counter':
            for kk in x:
                out.append((ty.a[0], kk, "<key>"))
        elif k == 'struct':
            for name, c in zip(ty.x['keys'], ty.a):
                if name in x:
                    out.append((c, x[name], f".{name}"))
        elif k == 'dc':
            for f in ty.x['spec'].fields:
                if f.name != '_KW_ONLY_' and hasattr(x, f.name):
                    out.append((f.ty, getattr(x, f.name), f".{f.name}"))
        elif k == 'cond':
            out.append((ty.a[0], x, ''))
        elif k == 'tagged':
            for m in ty.a:
                if type(x) is py_class(m):
                    out.append((m, x, f"<variant {m.x['spec'].name}>"))
        elif k == 'vol':
            if x._is_val:
                out.append((ty.a[0], x._inner, '._inner'))
            else:
                for i, e in enumerate(x._inner):
                    out.append((ty.a[0], e, f"._inner[{i}]"))
        elif k == 'union':
            # descend into the first member the typed value structurally belongs to
            j = union_member_of(ty, x)
            if j is not None:
                out.append((ty.a[j], x, f"<member {j}>"))
    except Exception:
        return []
    return out


def union_member_of(ty: Ty, x):
    """Index of the first member x structurally belongs to (an `Any` member only if nothing else matches)."""
    for strict in (True, False):
        for j, m in enumerate(ty.a):
            if typed_matches(m, x, 0, strict):
                return j
    return None


def locate(ty: Ty, x, fails, path='$', depth=0):
    """
    Deepest (ty_sub, x_sub, path) such that fails(ty_sub, x_sub) holds, following failing children.
    `fails` is only called on sub-positions; the caller has established that the root fails.
    """
    if depth > 10:
        return ty, x, path
    for (cty, cx, label) in children(ty, x):
        try:
            bad = fails(cty, cx)
        except Exception:
            bad = False
        if bad:
            return locate(cty, cx, fails, path + label, depth + 1)
    return ty, x, path


def contains(ty: Ty, pred, depth=0):
    if pred(ty):
        return True
    kids = list(ty.a) + ([f.ty for f in ty.x['spec'].fields if f.name != '_KW_ONLY_'] if ty.k == 'dc' else [])
    return depth < 10 and any(contains(c, pred, depth + 1) for c in kids)


def typed_matches(ty: Ty, x, depth=0, strict=False):
    """Shallow structural test: is typed value x plausibly a value of AST type ty?"""
    import collections
    import datetime
    import decimal
    import enum
    import fractions
    import pathlib
    import re
    k = ty.k
    if depth > 6:
        return True
    simple = {'int': int, 'float': float, 'complex': complex, 'bool': bool, 'str': str, 'bytes': bytes,
              'bytearray': bytearray, 'decimal': decimal.Decimal, 'fraction': fractions.Fraction}
    if k in simple:
        return type(x) is simple[k]
    if k == 'none': return x is None
    if k == 'any': return not strict
    if k == 'date': return type(x) is datetime.date
    if k == 'time': return type(x) is datetime.time
    if k == 'datetime': return type(x) is datetime.datetime
    if k == 'path':
        want = {'PurePosixPath': pathlib.PurePosixPath, 'PurePath': pathlib.PurePosixPath, 'PathLike': pathlib.PurePosixPath,
                'Path': pathlib.PosixPath, 'PosixPath': pathlib.PosixPath}[ty.x['cls']]
        return type(x) is want
    if k == 'pattern':
        return isinstance(x, re.Pattern) and type(x.pattern) is (bytes if ty.x.get('of') == 'bytes' else str)
    if k in ('sub', 'dc'): return type(x) is py_class(ty)
    if k == 'cc': return type(x).__name__ == 'CountryCode'
    if k == 'enum': return isinstance(x, py_class(ty))
    if k == 'lit': return any(type(x) is type(v) and x == v for v in ty.x['vals'])
    if k == 'list': return type(x) is list and all(typed_matches(ty.a[0], e, depth + 1, strict) for e in x[:4])
    if k == 'seq': return type(x) is tuple and all(typed_matches(ty.a[0], e, depth + 1, strict) for e in x[:4])
    if k == 'deque': return type(x) is collections.deque and all(typed_matches(ty.a[0], e, depth + 1, strict) for e in list(x)[:4])
    if k == 'set': return type(x) is (set if ty.x['res'] == 'set' else frozenset) and all(typed_matches(ty.a[0], e, depth + 1, strict) for e in list(x)[:4])
    if k == 'tup': return type(x) is tuple and len(x) == len(ty.a) and all(typed_matches(c, e, depth + 1, strict) for c, e in zip(ty.a, x))
    if k == 'dict':
        want = {'dict': dict, 'OrderedDict': collections.OrderedDict, 'defaultdict': collections.defaultdict}[ty.x.get('res', 'dict')]
        return type(x) is want and all(typed_matches(ty.a[1], v, depth + 1, strict) for v in list(x.values())[:4]) \
            and all(typed_matches(ty.a[0], kk, depth + 1, strict) for kk in list(x.keys())[:4])
    if k == 'counter': return type(x) is collections.Counter and all(typed_matches(ty.a[0], e, depth + 1, strict) for e in list(x)[:4])
    if k == 'struct': return type(x) is dict and set(x) == set(ty.x['keys'])
    if k == 'union': return any(typed_matches(m, x, depth + 1, strict) for m in ty.a)
    if k == 'cond':
        if not typed_matches(ty.a[0], x, depth + 1, strict):
            return False
        from . import conds as C
        try:
            return all(bool(C.pred(c)(x)) for c in ty.x['conds'])
        except Exception:
            return False
    if k == 'tagged': return any(type(x) is py_class(v) for v in ty.a)
    if k == 'ndarray':
        if type(x).__name__ != 'ndarray':
            return False
        want = {'int': 'iu', 'float': 'f', 'complex': 'c', 'bool': 'b', 'str': 'U'}.get(ty.x.get('dtype'))
        return want is None or x.size == 0 or x.dtype.kind in want     # (numpy makes every empty array float64)
    if k == 'vol':
        if type(x).__name__ != 'ValueOrList':
            return False
        inner = [x._inner] if x._is_val else list(x._inner)[:4]
        return all(typed_matches(ty.a[0], e, depth + 1, strict) for e in inner)
    if k == 'range': return type(x).__name__ == 'Range'
    return False
