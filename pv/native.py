"""
Independent builder of *typed* Python values from the type AST (never goes through pane's converters,
except dataclass instances, which are built with make_unchecked and natively built field values).
"""
import collections
import datetime
import decimal
import fractions
import pathlib
import re

from .tyast import Ty, py_class
from . import conds as C


class Skip(Exception):
    """No native value can be built for this node (or it would not satisfy a condition)."""


TZ = datetime.timezone(datetime.timedelta(hours=2))
DATETIMES = (datetime.datetime(2023, 9, 5, 11, 11, 11), datetime.datetime(1999, 12, 31, 23, 59, 59, 999999),
             datetime.datetime(2023, 9, 5, 11, 11, 11, tzinfo=datetime.timezone.utc), datetime.datetime(2024, 2, 29, 0, 0, tzinfo=TZ),
             datetime.datetime(1, 1, 1), datetime.datetime(2023, 9, 5, 11, 11, 11, 5))
DATES = (datetime.date(2023, 9, 5), datetime.date(1, 1, 1), datetime.date(9999, 12, 31))
TIMES = (datetime.time(11, 11, 11), datetime.time(0, 0), datetime.time(23, 59, 59, 123456), datetime.time(5, 6, tzinfo=TZ))
_PATH = {'PurePosixPath': pathlib.PurePosixPath, 'PurePath': pathlib.PurePosixPath, 'Path': pathlib.PosixPath,
         'PosixPath': pathlib.PosixPath, 'PathLike': pathlib.PurePosixPath}


def native(ty: Ty, rng, depth=0, hashable=False):
    k = ty.k
    ch = rng.choice

    def sub(c, **kw):
        kw.setdefault('hashable', hashable)
        return native(c, rng, depth + 1, **kw)

    if k == 'int': return ch((0, 1, -1, 5, 7, 42, 2 ** 70, -3))
    if k == 'float': return ch((0.0, -0.0, 1.5, -2.25, 1e308, float('inf'), float('nan'), 5.0))
    if k == 'complex': return ch((1 + 2j, 0j, complex(1.5, -0.0), complex('nan')))
    if k == 'bool': return ch((True, False))
    if k == 'str': return ch(('', 'a', 'héllo', '1/2', '2023-09-05', 'a\x00b', ' pad '))
    if k == 'bytes': return ch((b'', b'ab', b'\x00\xff'))
    if k == 'bytearray': return bytearray(ch((b'', b'xy')))
    if k == 'none': return None
    if k == 'decimal': return ch((decimal.Decimal('1.50'), decimal.Decimal(5), decimal.Decimal('-0'), decimal.Decimal('1E+5'), decimal.Decimal('Infinity')))
    if k == 'fraction': return ch((fractions.Fraction(1, 3), fractions.Fraction(-7, 2), fractions.Fraction(5), fractions.Fraction(0)))
    if k == 'date': return ch(DATES)
    if k == 'time': return ch(TIMES)
    if k == 'datetime': return ch(DATETIMES)
    if k == 'path': return _PATH[ty.x['cls']](ch(('a/b', '/abs/p', '.', 'x.txt', 'sp ace/ü')))
    if k == 'pattern':
        flags = ch((0, 0, 0, re.I, re.M | re.S, re.X))      # flags handed to re.compile() rather than written in the pattern
        return re.compile(ch((b'ab+', b'', b'x.y')), flags) if ty.x.get('of') == 'bytes' else re.compile(ch(('abc', 'a+b*', '', r'\d{2,3}', '(?i)ab')), flags)
    if k == 'any':
        return ch((5, 'x', None, 2.5, True, b'b')) if hashable else ch((5, 'x', None, 2.5, True, [1, 'a'], {'k': [1]}, (1, 2)))
    if k == 'cc':
        from .tyast import CountryCode
        return CountryCode(ch(('gb', 'us', 'cn')))
    if k == 'sub':
        cls = py_class(ty)
        return cls({'int': 5, 'float': 2.5, 'str': 'abc', 'bytes': b'ab'}[ty.x['base']])
    if k == 'lit':
        return ch(ty.x['vals'])
    if k == 'enum':
        return ch(list(py_class(ty)))
    n = ch((0, 1, 2, 2, 3)) if depth < 3 else ch((0, 1))
    if k == 'list':
        if hashable: raise Skip()
        return [sub(ty.a[0]) for _ in range(n)]
    if k == 'seq': return tuple(sub(ty.a[0]) for _ in range(n))
    if k == 'deque':
        if hashable: raise Skip()
        return collections.deque(sub(ty.a[0]) for _ in range(n))
    if k == 'set':
        items = [sub(ty.a[0], hashable=True) for _ in range(n)]
        try:
            return set(items) if ty.x['res'] == 'set' else frozenset(items)
        except TypeError:
            raise Skip()
    if k == 'tup': return tuple(sub(c) for c in ty.a)
    if k in ('dict', 'counter', 'struct') and hashable:
        raise Skip()
    if k == 'dict':
        d = {}
        for _ in range(n):
            kk = sub(ty.a[0], hashable=True)
            try:
                d[kk] = sub(ty.a[1], hashable=False)
            except TypeError:
                raise Skip()
        # keys must stay distinct once serialised (True and an enum member valued 1 would collide)
        from . import env
        try:
            ser = [env.into_data(kk) for kk in d]
        except Exception:
            raise Skip()
        if any(a == b for i, a in enumerate(ser) for b in ser[i + 1:]):
            raise Skip()
        res = ty.x.get('res', 'dict')
        if res == 'OrderedDict': return collections.OrderedDict(d)
        if res == 'defaultdict': return collections.defaultdict(None, d)
        return d
    if k == 'counter':
        c = collections.Counter()
        for _ in range(n):
            try:
                c[sub(ty.a[0], hashable=True)] = ch((1, 2, 5, 0))
            except TypeError:
                raise Skip()
        return c
    if k == 'struct':
        return {name: sub(c, hashable=False) for name, c in zip(ty.x['keys'], ty.a)}
    if k == 'union':
        return sub(ch(ty.a))
    if k == 'cond':
        for _ in range(6):
            v = sub(ty.a[0])
            try:
                if all(bool(C.pred(c)(v)) for c in ty.x['conds']):
                    return v
            except Exception:
                pass
        raise Skip()
    if k == 'tagged':
        return sub(ch(ty.a))
    if k == 'dc':
        S = ty.x['spec']
        cls = py_class(ty)
        kw = {}
        for f in S.fields:
            if f.name == '_KW_ONLY_' or not f.init:
                continue
            if f.has_default() and rng.random() < 0.4:
                continue
            kw[f.name] = native(f.ty, rng, depth + 1, hashable=False)
        try:
            inst = cls.make_unchecked(**kw)
        except Exception:
            raise Skip()   # validation hook refused the natively built values
        if hashable:
            try:
                hash(inst)
            except TypeError:
                raise Skip()
        return inst
    if k == 'ndarray':
        import numpy
        dt = ty.x.get('dtype')
        shape = ch(((), (0,), (2,), (2, 2), (1, 3)))
        if dt != 'float' and 0 in shape:
            shape = (2,)   # an empty array parses back as float64: numpy's choice, not a conversion result
        if dt == 'int':
            return numpy.array(numpy.arange(int(numpy.prod(shape))).reshape(shape), dtype=numpy.int64)
        if dt == 'bool':
            return numpy.array(numpy.arange(int(numpy.prod(shape))).reshape(shape) % 2 == 0, dtype=numpy.bool_)
        if dt == 'complex':
            return numpy.array(numpy.linspace(-1.5, 2.5, int(numpy.prod(shape))).reshape(shape) * (1 + 1j), dtype=numpy.complex128)
        return numpy.array(numpy.linspace(-1.5, 2.5, int(numpy.prod(shape))).reshape(shape), dtype=numpy.float64)
    if k == 'vol':
        from pane.types import ValueOrList
        if rng.random() < 0.5:
            return ValueOrList.from_val(sub(ty.a[0]))
        return ValueOrList.from_list([sub(ty.a[0]) for _ in range(ch((0, 1, 2)))])
    if k == 'range':
        from pane.types import Range
        if ty.x['num'] == 'int':
            return ch((lambda: Range[int](0, 10, 11), lambda: Range[int](0, 10, step=2), lambda: Range[int](1, 5, 5)))()
        return ch((lambda: Range[float](0., 1., 11), lambda: Range[float](0., 1., step=0.25)))()
    raise Skip()
