"""One shard of one property's workload, run in a fresh interpreter by pv.runner."""
import importlib
import json
import sys
import time


def run_shard(prop, tier, seed, shard, nshards, budget, replay=None):
    from . import env, reach  # noqa: F401  (env puts $PANE_REPO first on sys.path)
    from .ctx import Ctx
    reach.start()
    mod = importlib.import_module(f'pv.props.{prop.lower()}')
    ctx = Ctx(prop, tier, seed, shard, nshards, budget, replay=replay)
    t0 = time.time()
    try:
        mod.run(ctx)
    except BaseException as e:  # harness failure: inconclusive, never a verdict
        ctx.crash('run', -1, e)
    rep = ctx.report()
    rep['reach'] = reach.summary(getattr(mod, 'ANCHORS', []))
    rep['wall_s'] = time.time() - t0
    rep['pane_file'] = env.pane.__file__
    return rep


def main(argv):
    prop, tier, seed, shard, nshards, budget, outfile = argv[:7]
    replay = json.loads(argv[7]) if len(argv) > 7 else None
    rep = run_shard(prop, tier, int(seed), int(shard), int(nshards), int(budget), replay)
    with open(outfile, 'w') as f:
        json.dump(rep, f)


if __name__ == '__main__':
    sys.setrecursionlimit(3000)
    main(sys.argv[1:])
