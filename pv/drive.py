"""Shared case driver: generate (type AST, python type) per case index, run a body under watchdog/crash guards."""
from . import gentypes
from .common import build_type

current = {'sub': None, 'case': None, 'ctx': None}


def depth_for(ctx, rng):
    return rng.choice((1, 2, 2, 3)) if ctx.tier == 'quick' else rng.choice((1, 2, 3, 3, 4, 5, 6))


def default_gen(ctx, rng):
    return gentypes.gen_type(rng, depth_for(ctx, rng))


def for_each_case(ctx, sub, n, body, gen=None, seconds=20):
    """
    body(i, rng, ty, T). Case i is fully determined by ctx.rng(sub, i), so a replay regenerates it alone.
    Harness exceptions are recorded as inconclusive, never as verdicts.
    """
    gen = gen or default_gen
    for i in range(n):
        if not ctx.want(sub, i):
            continue
        rng = ctx.rng(sub, i)
        current.update(sub=sub, case=i, ctx=ctx)
        try:
            with ctx.deadline(seconds, sub, i):
                ty = gen(ctx, rng)
                T, err = build_type(ty, rng)
                if err is not None:
                    ctx.count('type_build_failed')
                    ctx.mark('type_build_errors', f"{type(err).__name__}: {str(err)[:80]}")
                    continue
                body(i, rng, ty, T)
        except Exception as e:
            ctx.crash(sub, i, e)
    current.update(sub=None, case=None)
