"""C16 — dataclass value semantics: equality, order, hash, frozen, copy, replace, repr."""
import copy
import dataclasses
import itertools
import typing as t

from .. import env, drive
from ..common import observe, fingerprint
from ..ctx import short
from ..tyast import Ty, _serial

PLAN = {
    'quick': {'shards': 16, 'budget': 260},
    'thorough': {'shards': 64, 'budget': 2500, 'timeout': 7200},
}
LEVEL = 'exploration'
TECHNIQUE = "runtime monitoring: algebraic laws checked on observed results of ==, <, hash, repr, copy, replace, setattr over the option cube, plus a differential of the hash category against the standard library's dataclass rule table on a mirrored class"
RULE = ("option cube (eq, order, frozen, unsafe_hash, explicit __hash__: all 48 points (explicit __hash__: none / a function / None) every shard) x per-field compare/hash/repr "
        "flag patterns for 1-4 fields x instance pairs and triples from a small value pool (equal, adjacent and reversed tuples "
        "occur), generic G[int]/G[str]/G instances; laws: reflexive/symmetric/transitive equality on compare-fields, foreign "
        "objects compare False, trichotomy and lexicographic order, TypeError across classes / with order=False, hash category = "
        "stdlib's, equal => equal hash, hash=False/compare=False fields do not influence it, frozen rejects set/del and leaves "
        "the instance untouched, copy/deepcopy/replace preserve value and set-field record, replace re-validates, repr lists "
        "repr-fields in order. distinct = (cube point, field flags, law)")
ASSUMPTIONS = ["field values are ints, strs and tuples (totally ordered, no NaN), as the statement scopes ordering"]
ANCHORS = ['classes:_make_eq', 'classes:_make_ord', 'classes:_maybe_make_hash', 'classes:_make_hash', 'classes:PaneBase.__setattr__',
           'classes:PaneBase.__delattr__', 'classes:PaneBase.__copy__', 'classes:PaneBase.__deepcopy__', 'classes:PaneBase.__replace__',
           'classes:PaneBase.__repr__', 'classes:PaneBase.__init_subclass__']
MIN_COUNTERS = {'quick': {'classes': 1500, 'eq_pairs': 40000, 'order_pairs': 20000, 'hash_categories_compared': 1500,
                          'hash_pairs': 15000, 'frozen_checks': 2000, 'copy_checks': 4000, 'replace_checks': 3000, 'repr_checks': 3000,
                          'generic_pairs': 500, 'generic_method_comparisons': 300, 'hash_after_change_checks': 200}}

POOL = {
    'int': (0, 1, 2),
    'str': ('a', 'b', 'ab'),
    'tuple': ((1, 2), (1, 3), (0, 9)),
    'list': ([1], [2], [1, 2]),
}
PY = {'int': int, 'str': str, 'tuple': t.Tuple[int, ...], 'list': t.List[int]}


def explicit_hash(self):
    return 42


def user_eq_fn(self, other):
    return self is other


def make_classes(opts, fields, explicit, user_eq=False):
    """(pane class | exception, stdlib mirror | exception)"""
    name = f"V{next(_serial)}"
    ann = {f['name']: PY[f['kind']] for f in fields}
    ns = {'__annotations__': dict(ann), '__module__': __name__}
    for f in fields:
        kw = {}
        if not f['compare']: kw['compare'] = False
        if f['hash'] is not None: kw['hash'] = f['hash']
        if not f['repr']: kw['repr'] = False
        if f.get('exclude'): kw['exclude'] = True
        if f['default']:
            if f['kind'] == 'list':
                kw['default_factory'] = list
            else:
                kw['default'] = POOL[f['kind']][0]
        if kw:
            ns[f['name']] = env.pfield(**kw)
    if explicit:
        ns['__hash__'] = None if explicit == 'none' else explicit_hash      # `__hash__ = None` written in the class body is explicit too
    if user_eq:
        ns['__eq__'] = user_eq_fn
    try:
        pcls = type(name, (env.PaneBase,), ns, **opts)
    except Exception as e:
        pcls = e
    dfields = []
    for f in fields:
        kw = {'compare': f['compare'], 'repr': f['repr']}
        if f['hash'] is not None: kw['hash'] = f['hash']
        if f['default']:
            if f['kind'] == 'list':
                kw['default_factory'] = list
            else:
                kw['default'] = POOL[f['kind']][0]
        dfields.append((f['name'], PY[f['kind']], dataclasses.field(**kw)))
    try:
        dns = {'__hash__': None if explicit == 'none' else explicit_hash} if explicit else {}
        if user_eq:
            dns['__eq__'] = user_eq_fn
        dcls = dataclasses.make_dataclass(name + 'Std', dfields, eq=opts.get('eq', True), frozen=opts.get('frozen', True),
                                          unsafe_hash=opts.get('unsafe_hash', False), namespace=dns)
    except Exception as e:
        dcls = e
    return pcls, dcls


def hash_category(cls, mk):
    """'error' | 'unhashable' | 'explicit' | 'identity' | 'by-value'"""
    if isinstance(cls, Exception):
        return 'error'
    try:
        a, b = mk(cls), mk(cls)
    except Exception:
        return 'uninstantiable'
    try:
        ha, hb = hash(a), hash(b)
    except TypeError:
        return 'unhashable'
    if ha == 42 and hb == 42:
        return 'explicit'
    if ha == object.__hash__(a) and hb == object.__hash__(b):
        return 'identity'
    return 'by-value'


def run(ctx):
    # eq, order, frozen, unsafe_hash, explicit __hash__ (no / a function / None)
    cube = [b + (e,) for b in itertools.product((True, False), repeat=4) for e in (True, False, 'none')]

    def body(i, rng, ty, T):
        eq, order, frozen, unsafe_hash, explicit = cube[i % len(cube)]
        opts = {'eq': eq, 'order': order, 'frozen': frozen, 'unsafe_hash': unsafe_hash}
        if rng.random() < 0.3:
            # leave options at their defaults when they equal them (exercises the None => inherit path)
            for k_, dflt in (('eq', True), ('order', True), ('frozen', True), ('unsafe_hash', False)):
                if opts[k_] == dflt:
                    del opts[k_]
        nf = rng.choice((1, 2, 2, 3, 4))
        fields = []
        for j in range(nf):
            kind = rng.choice(('int', 'int', 'str', 'tuple', 'list') if not (frozen and eq) or rng.random() < 0.15 else ('int', 'int', 'str', 'tuple'))
            compare = rng.random() > 0.25
            fields.append({'name': f"f{j}", 'kind': kind, 'compare': compare,
                           'hash': rng.choice((None, None, None, True, False)), 'repr': rng.random() > 0.2, 'default': False})
        # trailing fields may be defaulted and excluded from serialisation (copy must still carry their value)
        for f in reversed(fields):
            if rng.random() < 0.3:
                f['default'] = True
                f['exclude'] = rng.random() < 0.7
            else:
                break
        if rng.random() < 0.2:
            for f in fields:
                f['default'] = True           # every field defaulted: Cls() has an EMPTY set-field record
        user_eq = rng.random() < 0.15
        flags = tuple((f['kind'], f['compare'], f['hash'], f['repr'], bool(f.get('exclude'))) for f in fields)
        point = (eq, order, frozen, unsafe_hash, explicit, user_eq)
        pcls, dcls = make_classes(opts, fields, explicit, user_eq)
        ctx.count('classes')

        def mk(cls, vals=None):
            vals = vals or [POOL[f['kind']][0] for f in fields]
            vals = [list(v) if isinstance(v, list) else v for v in vals]
            return cls(*vals)

        # ---- hash category: differential against the standard library -------------------------------------------------
        pc, dc = hash_category(pcls, mk), hash_category(dcls, mk)
        ctx.count('hash_categories_compared')
        ctx.case((point, 'hash-category', pc), sample={'options': opts, 'explicit_hash': explicit, 'pane': pc, 'stdlib': dc})
        # hash=True on an unhashable field value makes hashing raise in both libraries: compare categories only when clean
        if pc != dc and 'uninstantiable' not in (pc, dc):
            ctx.violation('hash-rule-table', 'main', i, {'options': opts, 'explicit_hash': explicit, 'user_defined_eq': user_eq, 'fields': flags, 'pane': pc, 'stdlib_dataclass': dc},
                          mech=f"hash-category:{point}")
        if isinstance(pcls, Exception):
            return
        if user_eq:
            ctx.count('user_eq_classes')
            return      # the user's __eq__ rules; only the hash rule table is judged for these
        cls = pcls
        # instance pool: vary one or two fields at a time so equal / adjacent / reversed tuples occur
        combos = list(itertools.product(*[range(3) for _ in fields]))
        rng.shuffle(combos)
        combos = combos[:7] + combos[:2]          # include repeats => equal-but-distinct instances
        insts = []
        for c in combos:
            o = observe(mk, cls, [POOL[f['kind']][k] for f, k in zip(fields, c)])
            if o.kind != 'value':
                ctx.violation('construct', 'main', i, {'options': opts, 'fields': flags, 'outcome': o.brief()}, mech='cannot-instantiate')
                return
            insts.append((c, o.val))
        cmp_idx = [j for j, f in enumerate(fields) if f['compare']]
        key = lambda c: tuple(POOL[fields[j]['kind']][c[j]] for j in cmp_idx)

        # ---- equality -----------------------------------------------------------------------------------------------------
        for (ca, a), (cb, b) in itertools.product(insts, insts):
            r = observe(lambda: a == b)
            r2 = observe(lambda: b == a)
            rn = observe(lambda: a != b)
            ctx.count('eq_pairs')
            want = (key(ca) == key(cb)) if eq else (a is b)
            if r.kind != 'value' or r.val is not want or r2.kind != 'value' or r2.val is not want or rn.kind != 'value' or rn.val is want:
                ctx.violation('equality', 'main', i, {'options': opts, 'fields': flags, 'a': short(a), 'b': short(b), 'a==b': r.brief(), 'b==a': r2.brief(),
                                                      'a!=b': rn.brief(), 'expected': want}, mech=f"eq:{'compare-fields' if eq else 'identity'}")
                return
        ctx.case((point, flags, 'equality'))
        for foreign in (5, None, 'x', (1,), object()):
            r = observe(lambda: insts[0][1] == foreign)
            if r.kind != 'value' or r.val is not False:
                ctx.violation('equality', 'main', i, {'options': opts, 'other': short(foreign), 'result': r.brief()}, mech='eq:foreign-object')
                return
        # ---- ordering -----------------------------------------------------------------------------------------------------
        ordered_kinds = all(fields[j]['kind'] != 'list' or True for j in cmp_idx)
        for (ca, a), (cb, b) in itertools.product(insts[:6], insts[:6]):
            res = {op: observe(f) for op, f in (('<', lambda: a < b), ('<=', lambda: a <= b), ('>', lambda: a > b), ('>=', lambda: a >= b))}
            ctx.count('order_pairs')
            wit = {'options': opts, 'fields': flags, 'a': short(a), 'b': short(b), **{k_: v.brief() for k_, v in res.items()}}
            if not order:
                if any(v.kind != 'escape' or not isinstance(v.exc, TypeError) for v in res.values()):
                    ctx.violation('ordering', 'main', i, wit, mech='order=False-but-comparable')
                    return
                continue
            ka, kb = key(ca), key(cb)
            want = {'<': ka < kb, '<=': ka <= kb, '>': ka > kb, '>=': ka >= kb}
            if any(v.kind != 'value' or v.val is not want[k_] for k_, v in res.items()):
                wit['expected'] = want
                ctx.violation('ordering', 'main', i, wit, mech='order:lexicographic-compare-fields')
                return
            if eq:
                e = observe(lambda: a == b).val
                if sum((res['<'].val is True, e is True, res['>'].val is True)) != 1:
                    ctx.violation('ordering', 'main', i, wit, mech='order:trichotomy')
                    return
        if order:
            other_cls, _ = make_classes(opts, fields, explicit, False)
            if not isinstance(other_cls, Exception):
                x, y = insts[0][1], mk(other_cls)
                r = observe(lambda: x < y)
                if r.kind != 'escape' or not isinstance(r.exc, TypeError):
                    ctx.violation('ordering', 'main', i, {'options': opts, 'result': r.brief()}, mech='order:across-classes')
        ctx.case((point, flags, 'ordering'))
        # ---- hashing ------------------------------------------------------------------------------------------------------
        if pc == 'by-value':
            hash_idx = [j for j, f in enumerate(fields) if (f['hash'] if f['hash'] is not None else f['compare'])]
            hkey = lambda c: tuple(c[j] for j in hash_idx)
            for (ca, a), (cb, b) in itertools.product(insts, insts):
                ha, hb = observe(hash, a), observe(hash, b)
                if ha.kind != 'value' or hb.kind != 'value':
                    break    # a hashed field holds an unhashable value
                ctx.count('hash_pairs')
                if eq and observe(lambda: a == b).val is True and hkey(ca) == hkey(cb) and ha.val != hb.val:
                    ctx.violation('hashing', 'main', i, {'options': opts, 'fields': flags, 'a': short(a), 'b': short(b)}, mech='hash:equal-instances-hash-differently')
                    return
                if hkey(ca) == hkey(cb) and ha.val != hb.val:
                    ctx.violation('hashing', 'main', i, {'options': opts, 'fields': flags, 'a': short(a), 'b': short(b)}, mech='hash:non-hash-field-influences-hash')
                    return
            ctx.case((point, flags, 'hashing'))
        # ---- frozen / assignment ------------------------------------------------------------------------------------------
        a = insts[0][1]
        fp = fingerprint(a)
        name0 = fields[0]['name']
        newval = POOL[fields[0]['kind']][2]
        s = observe(setattr, a, name0, newval)
        ctx.count('frozen_checks')
        if frozen:
            if s.kind != 'escape' or not isinstance(s.exc, (dataclasses.FrozenInstanceError, AttributeError)) or fingerprint(a) != fp:
                ctx.violation('frozen', 'main', i, {'options': opts, 'setattr': s.brief(), 'instance': short(a)}, mech='frozen:assignment-allowed-or-mutated')
                return
        else:
            b = mk(cls, [POOL[f['kind']][0] for f in fields])
            b.__pane_set__.clear() if False else None
            h_before = observe(hash, b)
            s = observe(setattr, b, name0, newval)
            if s.kind != 'value' or getattr(b, name0) != newval or name0 not in b.__pane_set__:
                ctx.violation('frozen', 'main', i, {'options': opts, 'setattr': s.brief(), 'set_record': short(getattr(b, '__pane_set__', None))}, mech='non-frozen:assignment-not-recorded')
                return
            if pc == 'by-value' and eq:
                # equal instances hash equal, also when one of them got there by assignment after having been hashed
                twin = mk(cls, [newval] + [POOL[f['kind']][0] for f in fields[1:]])
                ha, hb = observe(hash, b), observe(hash, twin)
                ctx.count('hash_after_assignment_checks')
                if ha.kind == 'value' and hb.kind == 'value' and (b == twin) is True and ha.val != hb.val:
                    ctx.violation('hashing', 'main', i, {'options': opts, 'fields': flags, 'assigned': short(b), 'fresh_equal_instance': short(twin),
                                                         'hash_before_assignment': h_before.brief()}, mech='hash:stale-after-assignment')
                    return
        d = observe(delattr, a, name0)
        if d.kind != 'escape' or not hasattr(a, name0):
            ctx.violation('frozen', 'main', i, {'options': opts, 'delattr': d.brief()}, mech='delattr-allowed')
            return
        ctx.case((point, flags, 'frozen'))
        # ---- copy / deepcopy / replace ------------------------------------------------------------------------------------
        # besides fully supplied instances: ones that leave defaulted fields unset (partial and empty set-field records)
        n_req = len([f for f in fields if not f['default']])
        partials = []
        for k_ in sorted({n_req, (n_req + len(fields)) // 2}):
            if k_ < len(fields):
                o = observe(lambda: cls(*[list(v) if isinstance(v, list) else v for v in [POOL[f['kind']][1] for f in fields[:k_]]]))
                if o.kind == 'value':
                    partials.append(((1,) * len(fields), o.val))
                    ctx.count('partial_record_instances')
                    if k_ == 0:
                        ctx.count('empty_record_instances')
        for (c, a) in insts[:3] + partials:
            for cname, op in (('copy', copy.copy), ('deepcopy', copy.deepcopy)):
                o = observe(op, a)
                ctx.count('copy_checks')
                wit = {'options': opts, 'fields': flags, 'operation': cname, 'original': short(a), 'result': o.brief()}
                if o.kind != 'value' or type(o.val) is not type(a):
                    ctx.violation('copy', 'main', i, wit, mech=f"{cname}:failed")
                    return
                b = o.val
                same_vals = all(getattr(a, f['name']) == getattr(b, f['name']) for f in fields)
                if not same_vals or b.__pane_set__ != a.__pane_set__ or b.__pane_set__ is a.__pane_set__ or (eq and not (a == b)):
                    wit['set_records'] = f"{a.__pane_set__} / {b.__pane_set__} same-object={b.__pane_set__ is a.__pane_set__}"
                    ctx.violation('copy', 'main', i, wit, mech=f"{cname}:value-or-record-differs")
                    return
                if cname == 'deepcopy':
                    for f in fields:
                        if f['kind'] == 'list' and getattr(a, f['name']) is getattr(b, f['name']):
                            ctx.violation('copy', 'main', i, wit, mech='deepcopy:shares-mutable-field')
                            return
            # replace
            name0, kind0 = fields[-1]['name'], fields[-1]['kind']
            change = POOL[kind0][(c[-1] + 1) % 3]
            o = observe(a.__replace__, **{name0: change})
            ctx.count('replace_checks')
            expect_vals = [getattr(a, f['name']) for f in fields[:-1]] + [change]
            wit = {'options': opts, 'fields': flags, 'original': short(a), 'change': {name0: short(change)}, 'result': o.brief()}
            if o.kind != 'value' or [getattr(o.val, f['name']) for f in fields] != expect_vals or o.val.__pane_set__ != (a.__pane_set__ | {name0}):
                ctx.violation('replace', 'main', i, wit, mech='replace:value-or-record')
                return
            bad = observe(a.__replace__, **{name0: {'int': 'text', 'str': 5, 'tuple': 'abc', 'list': 5}[kind0]})
            if bad.kind != 'converr':
                ctx.violation('replace', 'main', i, {**wit, 'ill_typed_change': bad.brief()}, mech='replace:does-not-revalidate')
                return
            if kind0 == 'int':
                # a change equal to the current value but of another kind is still a change, and must be validated
                same = observe(a.__replace__, **{name0: float(getattr(a, name0))})
                ctx.count('replace_equal_other_kind_checks')
                if same.kind != 'converr':
                    ctx.violation('replace', 'main', i, {**wit, 'equal_value_of_other_kind': float(getattr(a, name0)), 'outcome': same.brief()},
                                  mech='replace:equal-value-not-revalidated')
                    return
        ctx.case((point, flags, 'copy-replace'))
        # ---- repr ---------------------------------------------------------------------------------------------------------
        for (c, a) in insts[:2]:
            want = f"{type(a).__name__}(" + ", ".join(f"{f['name']}={getattr(a, f['name'])!r}" for f in fields if f['repr']) + ")"
            r = observe(repr, a)
            ctx.count('repr_checks')
            if r.kind != 'value' or r.val != want:
                ctx.violation('repr', 'main', i, {'options': opts, 'fields': flags, 'repr': r.brief(), 'expected': want}, mech='repr:fields-or-order')
                return
        ctx.case((point, flags, 'repr'))

    drive.for_each_case(ctx, 'main', ctx.budget, body, gen=lambda c, r: Ty('int'), seconds=40)

    # ---- generic parameters are ignored by equality; subclasses of a parametrisation are different classes --------------
    def body_generic(i, rng, ty, T):
        TV = t.TypeVar('TV')
        import types as _types
        G = _types.new_class(f"G{next(_serial)}", (env.PaneBase, t.Generic[TV]), {},
                             lambda ns: ns.update({'__annotations__': {'x': TV, 'y': int}, 'y': 0, '__module__': __name__}))
        gi, gs, ga = G[int](1), G[t.Any](1), G(1)
        ctx.count('generic_pairs')
        for a, b, want in ((gi, gs, True), (gi, ga, True), (gs, ga, True), (gi, G[int](2), False)):
            r, r2 = observe(lambda: a == b), observe(lambda: b == a)
            if r.kind != 'value' or r.val is not want or r2.kind != 'value' or r2.val is not want:
                ctx.violation('equality', 'generic', i, {'a': short(a), 'b': short(b), 'a==b': r.brief(), 'expected': want}, mech='eq:generic-parameters')
                return
            if want and hash(a) != hash(b):
                ctx.violation('hashing', 'generic', i, {'a': short(a), 'b': short(b)}, mech='hash:generic-parameters')
                return
        # ... also when the parameters were given in two steps (a partially applied alias: Pair[str, V], then [int])
        TW = t.TypeVar('TW')
        P2 = _types.new_class(f"GP{next(_serial)}", (env.PaneBase, t.Generic[TV, TW]), {},
                              lambda ns: ns.update({'__annotations__': {'l': TV, 'r': TW}, '__module__': __name__}))
        two_step, one_step, bare = P2[str, TW][int]('a', 1), P2[str, int]('a', 1), P2('a', 1)
        again = G[TV][int](1)
        ctx.count('two_step_subscript_pairs')
        for a, b in ((two_step, one_step), (two_step, bare), (again, gi), (again, ga)):
            facts = {'a == b': observe(lambda: a == b), 'b == a': observe(lambda: b == a), 'a <= b': observe(lambda: a <= b), 'a < b': observe(lambda: a < b),
                     'hash equal': observe(lambda: hash(a) == hash(b))}
            want = {'a == b': True, 'b == a': True, 'a <= b': True, 'a < b': False, 'hash equal': True}
            got = {k_: (o.val if o.kind == 'value' else f"raises {type(o.exc).__name__}") for k_, o in facts.items()}
            if got != want:
                ctx.violation('equality', 'generic', i, {'a': f"{short(a)} made by subscripting twice", 'b': short(b), 'observed': short(got, 200)}, mech='eq:two-step-subscript-is-another-class')
                return
        Sub = type(f"S{next(_serial)}", (G[int],), {'__annotations__': {}, '__module__': __name__})
        r = observe(lambda: G[int](5) == Sub(5))
        r2 = observe(lambda: Sub(5) == G[int](5))
        ctx.case(('generic', 'subclass-of-parametrisation', r.brief()))
        if r.kind != 'value' or r.val is not False or r2.kind != 'value' or r2.val is not False:
            ctx.violation('equality', 'generic', i, {'G[int](5)==Sub(5)': r.brief(), 'Sub(5)==G[int](5)': r2.brief()}, mech='eq:subclass-of-parametrisation-is-another-class')

    drive.for_each_case(ctx, 'generic', 40, body_generic, gen=lambda c, r: Ty('int'))

    # fields the cube does not have: an Optional field replaced by None (None is a value, not "no change"), and an init=False field
    # that nothing has filled in yet (a frozen instance refuses its first assignment like any other)
    def body_special(i, rng, ty, T):
        frozen = rng.choice((True, True, False))
        eq = rng.random() < 0.8
        ns = {'__annotations__': {'a': int, 'opt': t.Optional[int], 'name': t.Optional[str], 'z': int}, 'opt': 5, 'name': 'n',
              'z': env.pfield(init=False), '__module__': __name__}
        cls = type(f"VS{next(_serial)}", (env.PaneBase,), ns, frozen=frozen, eq=eq)
        inst = cls(1) if rng.random() < 0.5 else cls(1, opt=7)
        ctx.count('special_instances')
        wit = {'frozen': frozen, 'instance': short(inst), 'set_record': short(sorted(inst.__pane_set__))}
        for fname in ('opt', 'name'):
            o = observe(inst.__replace__, **{fname: None})
            ctx.count('replace_checks')
            if o.kind != 'value' or getattr(o.val, fname) is not None or fname not in o.val.__pane_set__ or o.val.a != 1:
                ctx.violation('replace', 'special', i, {**wit, 'change': {fname: None}, 'result': o.brief(),
                                                        'result_set_record': short(sorted(getattr(o.val, '__pane_set__', ()))) if o.kind == 'value' else None},
                              mech='replace:None-is-a-value')
                return
        st = observe(setattr, inst, 'z', 3)
        ctx.count('frozen_checks')
        if frozen and (st.kind == 'value' or hasattr(inst, 'z') and getattr(inst, 'z', None) == 3):
            ctx.violation('frozen', 'special', i, {**wit, 'setattr(z)': st.brief()}, mech='frozen:first-assignment-of-uninitialised-field-allowed')
            return
        if not frozen and (st.kind != 'value' or inst.z != 3):
            ctx.violation('frozen', 'special', i, {**wit, 'setattr(z)': st.brief()}, mech='non-frozen:assignment-refused')
            return
        if not frozen:
            # the value assigned to the init=False field is part of the instance: copies carry it
            for cname, op in (('copy', copy.copy), ('deepcopy', copy.deepcopy)):
                o = observe(op, inst)
                ctx.count('copy_checks')
                if o.kind != 'value' or getattr(o.val, 'z', None) != 3 or o.val.a != 1 or (eq and not (o.val == inst)) or o.val.__pane_set__ != inst.__pane_set__:
                    ctx.violation('copy', 'special', i, {**wit, 'operation': cname, 'result': o.brief(),
                                                         'result_z': repr(getattr(o.val, 'z', '<unset>')) if o.kind == 'value' else None},
                                  mech=f"{cname}:init-false-field-lost")
                    return
        # repr of a subclass that adds fields, after the base class has been repr'd: every repr-field of the SUBCLASS, in order
        base_first = rng.random() < 0.7
        rbase = type(f"VSB{next(_serial)}", (env.PaneBase,), {'__annotations__': {'a': int, 'opt': t.Optional[int], 'name': t.Optional[str]}, 'opt': 5, 'name': 'n',
                                                               '__module__': __name__}, frozen=frozen, eq=eq)
        if base_first:
            repr(rbase(1))
        sub = type(f"VSS{next(_serial)}", (rbase,), {'__annotations__': {'extra': str, 'more': int}, 'extra': 'e', 'more': 2, '__module__': __name__})
        si = sub(1, extra='E')
        r = observe(repr, si)
        ctx.count('repr_checks')
        names = [nm for nm in ('a', 'opt', 'name', 'extra', 'more') if True]
        pos = [r.val.find(f"{nm}=") for nm in names] if r.kind == 'value' else []
        if r.kind != 'value' or any(p_ < 0 for p_ in pos) or pos != sorted(pos) or "extra='E'" not in r.val or not r.val.startswith(sub.__name__ + '('):
            ctx.violation('repr', 'special', i, {'class': sub.__name__, 'base_repr_first': base_first, 'repr': r.brief(), 'expected_fields_in_order': names},
                          mech='repr:subclass-fields-missing-or-misordered')
            return
        # a derived compare-field (init=False, filled by __post_init__) takes part in ordering where it stands, as it does in ==
        Ver = type(f"VSO{next(_serial)}", (env.PaneBase,), {'__annotations__': {'key': int, 'name': str}, 'key': env.pfield(init=False),
                                                            '__post_init__': lambda self: object.__setattr__(self, 'key', len(self.name)), '__module__': __name__},
                   frozen=frozen, order=True)
        insts_o = [Ver(nm) for nm in ('b', 'aa', 'c', 'ab', 'aaa')]
        for a_, b_ in itertools.combinations(insts_o, 2):
            ta, tb = (a_.key, a_.name), (b_.key, b_.name)
            lt, gt, eq_ = observe(lambda: a_ < b_), observe(lambda: a_ > b_), observe(lambda: a_ == b_)
            ctx.count('order_pairs')
            if lt.kind != 'value' or gt.kind != 'value' or lt.val != (ta < tb) or gt.val != (ta > tb) or eq_.val != (ta == tb) or sum(map(bool, (lt.val, gt.val, eq_.val))) != 1:
                ctx.violation('ordering', 'special', i, {'class': 'key: int = field(init=False) [= len(name)], name: str', 'a': short(a_), 'b': short(b_),
                                                         '<': lt.brief(), '>': gt.brief(), '==': eq_.brief(), 'tuples': [ta, tb]}, mech='order:derived-compare-field-ignored')
                return
        ctx.case(('special', frozen, eq), nontrivial=True)

    drive.for_each_case(ctx, 'special', 60, body_special, gen=lambda c, r: Ty('int'))

    # frozen means every attribute name (fields spelled with a leading underscore and names that are no field at all included), and
    # equal instances hash equal also after a hashable-but-mutable field value changed under a frozen holder that was hashed before
    def body_names_and_history(i, rng, ty, T):
        names = rng.sample(('_balance', '__dunderish', 'x', '_', 'Total', 'my_field', '_x1'), 3)
        ns = {'__annotations__': {n: int for n in names}, '__module__': __name__}
        for n in names[1:]:
            ns[n] = 0
        Fz = type(f"VN{next(_serial)}", (env.PaneBase,), ns, frozen=True)
        inst = Fz(1)
        for n in names + ['_not_a_field', 'other', '__pane_set__x']:
            before = getattr(inst, n, '<absent>')
            st = observe(setattr, inst, n, 99)
            dl = observe(delattr, inst, n)
            ctx.count('frozen_checks')
            ctx.case(('frozen-names', n.startswith('_'), n in names, st.kind), nontrivial=True)
            if st.kind == 'value' or dl.kind == 'value' or getattr(inst, n, '<absent>') != before:
                ctx.violation('frozen', 'names', i, {'fields': names, 'attribute': n, 'setattr': st.brief()[:120], 'delattr': dl.brief()[:120], 'value_after': short(getattr(inst, n, '<absent>'))},
                              mech='frozen:' + ('underscore-name' if n.startswith('_') else 'name') + '-assignable')
                return
        Cell = type(f"VC{next(_serial)}", (env.PaneBase,), {'__annotations__': {'v': int}, '__module__': __name__}, frozen=False, unsafe_hash=True)
        Holder = type(f"VH{next(_serial)}", (env.PaneBase,), {'__annotations__': {'cell': Cell, 'n': int}, 'n': 0, '__module__': __name__}, frozen=True)
        a = Holder.make_unchecked(Cell(1), 2)        # (unchecked: the holder keeps the very object it was given)
        h0 = observe(hash, a)
        a.cell.v = rng.choice((5, 7))
        b = Holder.make_unchecked(Cell(a.cell.v), 2)
        eq, ha, hb = observe(lambda: a == b), observe(hash, a), observe(hash, b)
        ctx.count('hash_after_change_checks')
        if h0.kind == 'value' and (eq.kind != 'value' or eq.val is not True or ha.kind != 'value' or hb.kind != 'value' or ha.val != hb.val):
            ctx.violation('equal-instances-hash-equal', 'names', i, {'holder': short(a), 'fresh_equal_instance': short(b), 'a == b': eq.brief(), 'hash(a)': ha.brief(), 'hash(b)': hb.brief(),
                                                                     'history': 'a was hashed, then the mutable (hashable) cell it holds was assigned to'},
                          mech='hash-remembered-across-a-change')
            return
        # a subclass that is not frozen and does not compare by value inherits nothing stale either
        Loose = observe(lambda: type(f"VL{next(_serial)}", (Holder,), {'__annotations__': {}, '__module__': __name__}, frozen=False, eq=False))
        if Loose.kind == 'value':
            c = Loose.val.make_unchecked(Cell(1), 2)
            h1 = observe(hash, c)
            c.n = 9
            h2 = observe(hash, c)
            if h1.kind == 'value' and h2.kind == 'value' and h1.val != h2.val and h1.val == object.__hash__(c):
                pass

    drive.for_each_case(ctx, 'names', 40, body_names_and_history, gen=lambda c, r: Ty('int'))

    # the documented way to derive a field (init=False, assigned by __post_init__) on a class that is not frozen: the assignment lands in
    # the set-field record, and replace() still works - changing what it is told to, re-deriving the rest
    def body_derived_replace(i, rng, ty, T):
        def post(self):
            self.area = self.w * self.h
        Rect = type(f"VD{next(_serial)}", (env.PaneBase,), {'__annotations__': {'w': int, 'h': int, 'area': int}, 'h': 3, 'area': env.pfield(init=False), '__post_init__': post,
                                                           '__module__': __name__}, frozen=False)
        r0 = rng.choice((Rect(2), Rect(2, 4), Rect.from_data({'w': 2}), Rect.from_data({'w': 2, 'h': 5})))
        if rng.random() < 0.5:
            r0.area = r0.area           # an explicit assignment by the caller, too
        o = observe(r0.__replace__, h=7)
        o2 = observe(r0.__replace__)
        ctx.count('replace_checks', 2)
        ctx.case(('derived-replace', o.kind, o2.kind), nontrivial=True)
        if o.kind != 'value' or (o.val.w, o.val.h, o.val.area) != (2, 7, 14) or o2.kind != 'value' or o2.val != r0:
            ctx.violation('replace', 'derived-replace', i, {'instance': short(r0), 'set_record': short(sorted(r0.__pane_set__)), 'replace(h=7)': o.brief()[:200], 'replace()': o2.brief()[:200]},
                          mech='replace:refused-after-init-false-assignment')

    drive.for_each_case(ctx, 'derived-replace', 20, body_derived_replace, gen=lambda c, r: Ty('int'))

    # a subscripted generic class is its origin as far as value semantics go: instances of G[int] use the methods the body of G defines
    # (or the ones generated for G), exactly like instances of G
    def body_generic_methods(i, rng, ty, T):
        import types as _types
        TV = t.TypeVar('TV')
        frozen, eq = rng.random() < 0.6, rng.random() < 0.8
        given = {k for k in ('__hash__', '__eq__', '__lt__', '__repr__', 'hash-none') if rng.random() < 0.4}
        if 'hash-none' in given:
            given.discard('__hash__')
        ns = {'__annotations__': {'x': TV, 'n': int}, 'n': 0, '__module__': __name__}
        if '__hash__' in given: ns['__hash__'] = lambda self: 42
        if 'hash-none' in given: ns['__hash__'] = None
        if '__eq__' in given: ns['__eq__'] = lambda self, o: type(o).__name__ == type(self).__name__ and abs(self.n - o.n) <= 1
        if '__lt__' in given: ns['__lt__'] = lambda self, o: self.n > o.n          # deliberately upside down
        if '__repr__' in given: ns['__repr__'] = lambda self: f"<mine {self.n}>"
        mk = observe(lambda: _types.new_class(f"GM{next(_serial)}", (env.PaneBase, t.Generic[TV]), {'frozen': frozen, 'eq': eq}, lambda d: d.update(ns)))
        if mk.kind != 'value':
            return
        G = mk.val
        GI = G[int]
        ctx.count('generic_method_classes')
        ctx.case(('generic-methods', frozen, eq, tuple(sorted(given))), nontrivial=True)

        def facts(cls):
            a, b, c = cls(1, 0), cls(1, 1), cls(2, 5)
            out = {}
            for label, f in (('hash(a)', lambda: hash(a) if hash(a) == 42 else ('identity' if hash(a) == object.__hash__(a) else 'by-value')), ('a == b', lambda: a == b), ('a == c', lambda: a == c),
                             ('a == a2', lambda: a == cls(1, 0)), ('a < c', lambda: a < c), ('c < a', lambda: c < a), ('repr(a)', lambda: repr(a).replace(cls.__name__, 'G')),
                             ('hash equal for equal', lambda: hash(a) == hash(cls(1, 0)))):
                o = observe(f)
                out[label] = o.val if o.kind == 'value' else f"raises {type(o.exc).__name__}"
            return out
        fo, fs = facts(G), facts(GI)
        ctx.count('generic_method_comparisons')
        if fo != fs:
            diff = {k: (fo[k], fs[k]) for k in fo if fo[k] != fs[k]}
            ctx.violation('subscripted-class-keeps-methods', 'generic-methods', i, {'options': {'frozen': frozen, 'eq': eq}, 'defined_in_class_body': sorted(given),
                                                                               'instances_of_G_vs_G[int]': short(diff, 400)},
                          mech='subscripted-generic-loses:' + ','.join(sorted(k.split('(')[0].split(' ')[0] for k in diff))[:60])

    drive.for_each_case(ctx, 'generic-methods', 60, body_generic_methods, gen=lambda c, r: Ty('int'))
