"""C06 — typed values are fixed points of convert."""
import re
import typing as t

from .. import env, genval, gentypes, drive, deepeq, native, model
from ..common import observe, build_type, plain_data
from ..ctx import short
from ..deepeq import deep_typed_eq
from ..locate import locate, contains, union_member_of
from ..tyast import Ty, describe, skeleton, build, py_class
from . import c05

PLAN = {
    'quick': {'shards': 16, 'budget': 1800},
    'thorough': {'shards': 64, 'budget': 25000, 'timeout': 7200},
}
LEVEL = 'exploration'
TECHNIQUE = "runtime monitoring: fixed-point oracle convert(x, T) == x (exact types) on typed values from two independent sources, plus constructor-vs-unchecked differential for dataclasses"
RULE = ("typed x from (a) from_data of generated members and (b) an independent native builder (Fraction, Decimal, aware/naive "
        "datetimes, paths, compiled patterns, sets, deques, Counters, enum members, dataclass instances via make_unchecked, "
        "ValueOrList, Range) alone and nested; oracle: convert(x, T) returns and deep-typed-equals x, convert is idempotent on "
        "interchange inputs, Cls(**typed_fields) equals make_unchecked(**typed_fields). T excludes externally/adjacently tagged "
        "unions at any depth and dataclasses whose output form is not enabled on input. distinct = (source, type skeleton, value skeleton)")
ASSUMPTIONS = ["comparison is modulo exclude=True dataclass fields (they are not serialised, hence re-defaulted)",
               "compiled patterns are built with default flags; defaultdicts with default_factory=None (what pane itself produces)"]
ANCHORS = ['convert:convert', 'convert:into_data', 'convert:from_data', 'converters:Converter.into_data',
           'converters:DatetimeConverter.try_convert', 'converters:PatternConverter.try_convert',
           'classes:_make_init', 'converters:UnionConverter.into_data']
MIN_COUNTERS = {'quick': {'fixed_point_checked': 25000, 'native_values': 8000, 'ctor_checked': 2000, 'idempotence_checked': 8000, 'bare_container_checks': 2000, 'pathlike_checks': 300}}


def in_scope(ty):
    if contains(ty, lambda n: n.k == 'tagged' and n.x['external'] is not False):
        return False
    return c05.in_scope(ty)


def fixed_point(T, x):
    """None if convert(x, T) returns a deep-typed-equal value, else (stage, detail)."""
    y = observe(env.convert, x, T)
    if y.kind != 'value':
        return 'convert-raised', y.brief()
    ok, why = deep_typed_eq(x, y.val)
    if not ok:
        return 'convert-changed-value', f"{short(y.val, 200)}: {why}"
    if hasattr(T, '__pane_info__') and isinstance(T, type):
        # the classmethod spelling of the same thing
        z = observe(T.from_obj, x)
        if z.kind != 'value':
            return 'from_obj-raised', z.brief()
        ok, why = deep_typed_eq(x, z.val)
        if not ok:
            return 'from_obj-changed-value', f"{short(z.val, 200)}: {why}"
    return None


def classify(ty, x):
    if ty.k == 'range' or type(x).__name__ == 'Range':
        return 'range-helper-not-a-fixed-point'
    if ty.k == 'tagged' and ty.x['external'] is False:
        # convert() serialises the instance by ITS OWN class; a variant that renames its tag field writes the tag under the renamed
        # key, which the internally tagged union (reading the Tagged(...) name) does not find
        for m in ty.a:
            if type(x) is py_class(m):
                S = m.x['spec']
                tagf = next((f for f in S.fields if f.name == ty.x['tag']), None)
                if tagf is not None and model.out_name(S, tagf) != ty.x['tag']:
                    return 'internal-tag-written-under-renamed-key'
    if ty.k == 'pattern' and isinstance(x, re.Pattern):
        try:
            if x.flags != re.compile(x.pattern).flags:
                return 'pattern-flags-not-serialised'      # flags given to re.compile(), not written in the pattern text
        except Exception:
            pass
    if ty.k == 'union':
        U = build(ty)
        members = t.get_args(U)
        d = observe(env.into_data, x)
        if d.kind == 'value':
            j_true = union_member_of(ty, x)
            j_parse = next((j for j, A in enumerate(members) if observe(env.from_data, d.val, A).kind == 'value'), None)
            if j_parse is not None and j_true is not None and j_parse < j_true:
                # the inherent ambiguity only if the earlier member is RIGHT to read that data (the reference model does not refuse it)
                try:
                    wrong = len(members) == len(ty.a) and model.spec(ty.a[j_parse], plain_data(d.val)).v == model.REJ
                except Exception:
                    wrong = False
                if not wrong:
                    return 'untagged-union-reparse-ambiguity'
    return c05.classify(ty, x) if ty.k in ('dc', 'dict', 'counter') else None


def run(ctx):
    deepeq.SKIP_EXCLUDED = True
    gentypes.INIT_FALSE_IMPLIES_EXCLUDE = True
    gentypes.NDARRAY_ANY_LEAVES = False
    genval.SMALL_INTS_ONLY = True
    gentypes.NO_ANY_IN_UNIONS = True
    gentypes.VOL_OF_SEQUENCES = False

    def check_fixed(i, sub, source, ty, T, x):
        ctx.count('fixed_point_checked')
        ctx.case((source, skeleton(ty, 4), genval.skeleton(x, 2) if not hasattr(type(x), '__pane_info__') else type(x).__name__),
                 sample={'source': source, 'type': describe(ty)[:250], 'typed': short(x, 200)})
        bad = fixed_point(T, x)
        if bad is None:
            return True
        stage, detail = bad

        def fails(cty, cx):
            Tc, err = build_type(cty)
            return err is None and fixed_point(Tc, cx) is not None

        lty, lx, path = locate(ty, x, fails)
        if lty.k in ('dict', 'counter', 'set') and sum(1 for k_ in lx if c05._has_nan(k_)) >= 2:
            ctx.count('out_of_scope_nan_keys')       # keys distinct only because NaN != NaN share one data image (see C05)
            return True
        if lty is not ty:
            lb = fixed_point(build(lty), lx)
            if lb:
                stage, detail = lb
        mech = classify(lty, lx)
        ctx.violation('typed-value-is-fixed-point', sub, i,
                      {'source': source, 'type': describe(ty), 'typed': short(x, 300), 'located_at': path,
                       'located_type': describe(lty), 'located_value': short(lx, 300), 'stage': stage, 'detail': detail},
                      mech=mech or f"{stage}:{lty.k}")
        return False

    def body(i, rng, ty, T):
        if not in_scope(ty):
            ctx.count('out_of_scope_types')
            return
        # (a) results of conversions, and idempotence of convert on interchange inputs
        for j in range(2):
            v = genval.member(ty, rng)
            c1 = observe(env.convert, v, T)
            if c1.kind != 'value':
                continue
            ctx.count('idempotence_checked')
            check_fixed(i, 'main', 'converted', ty, T, c1.val)
        # (b) natively built values
        for j in range(3):
            try:
                x = native.native(ty, rng)
            except native.Skip:
                ctx.count('native_skipped')
                continue
            ctx.count('native_values')
            ok = check_fixed(i, 'main', 'native', ty, T, x)
            if ok and ty.k == 'dc':
                kw = {f.name: getattr(x, f.name) for f in type(x).__pane_info__.fields if f.init and f.name in x.__pane_set__}
                a = observe(T, **kw)
                b = observe(T.make_unchecked, **kw)
                ctx.count('ctor_checked')
                if b.kind == 'value' and (a.kind != 'value' or not deep_typed_eq(b.val, a.val)[0]):
                    # the constructor converts each argument on its own (by the ARGUMENT's type, not through the enclosing class): an
                    # argument that is not a fixed point of its field type is the located witness (and may be a known finding)
                    S = ty.x['spec']
                    arg_ok = True
                    for f in S.fields:
                        if f.name in kw and f.name != '_KW_ONLY_':
                            FT, ferr = build_type(f.ty)
                            if ferr is None and fixed_point(FT, kw[f.name]) is not None:
                                arg_ok = check_fixed(i, 'main', 'constructor-argument', f.ty, FT, kw[f.name]) and arg_ok
                                arg_ok = False
                    if arg_ok:
                        ctx.violation('ctor-accepts-typed-arguments', 'main', i,
                                      {'type': describe(ty), 'kwargs': short(kw, 300), 'checked': a.brief(), 'unchecked': b.brief()},
                                      mech='ctor-differs-from-unchecked')

    drive.for_each_case(ctx, 'main', ctx.budget, body)

    # the shipped helper types
    def gen_helper(ctx_, rng):
        inner = gentypes.gen_leaf(rng, False, allow=('int', 'float', 'str', 'fraction', 'none', 'bool', 'date', 'decimal'))
        c = rng.random()
        if c < 0.3: return Ty('range', num=rng.choice(('int', 'float')))
        if c < 0.6: return Ty('vol', [inner])
        if c < 0.8: return Ty('list', [Ty('vol', [inner])])
        return Ty('dict', [Ty('str'), Ty('range', num='int')])

    drive.for_each_case(ctx, 'helpers', max(10, ctx.budget // 8), body, gen=gen_helper)

    # equal-as-sets unions in both member orders, inside short-lived container aliases, alternating within one process:
    # a typed value of one must stay a fixed point whatever was converted under the other just before
    def body_pairs(i, rng, ty, T):
        a, b = rng.sample(('int', 'float', 'bool', 'str', 'fraction', 'decimal', 'complex'), 2)
        wrap = rng.choice(('list', 'dictval', 'tuple', 'seq', 'field'))

        def mk(x, y):
            u = Ty('union', [Ty(x), Ty(y)])
            if wrap == 'list': return Ty('list', [u])
            if wrap == 'seq': return Ty('seq', [u])
            if wrap == 'dictval': return Ty('dict', [Ty('str'), u])
            if wrap == 'tuple': return Ty('tup', [u, Ty('int')])
            from ..tyast import FieldM, ClassM, _serial
            return Ty('dc', spec=ClassM(f"K{next(_serial)}", [FieldM('inner_val', Ty('list', [u]))], {}))

        t_ab, t_ba = mk(a, b), mk(b, a)
        for ty2 in (t_ab, t_ba, t_ab, t_ba):
            T2, err = build_type(ty2, rng)
            if err is not None:
                ctx.count('pair_spelling_skipped')
                continue
            ctx.count('order_pair_types')
            for _ in range(2):
                try:
                    x = native.native(ty2, rng)
                except native.Skip:
                    continue
                ctx.count('native_values')
                check_fixed(i, 'pairs', 'native-order-pair', ty2, T2, x)
            del T2

    drive.for_each_case(ctx, 'pairs', max(20, ctx.budget // 4), body_pairs, gen=lambda c, r: Ty('int'))

    # a derived field (init=False, filled by __post_init__, left out of the data) standing BEFORE an ordinary field of another
    # type, in a class read and written positionally: instances are fixed points alone, nested, and as constructor arguments
    def body_derived(i, rng, ty_unused, T_unused):
        later = rng.choice(((str, 'lbl', 'other'), (fractions.Fraction, fractions.Fraction(1, 3), fractions.Fraction(2)), (t.List[int], [1, 2], [])))
        ns = {'__annotations__': {'lo': int, 'width': int, 'label': later[0], 'n': float}, '__module__': __name__,
              'width': env.pfield(init=False, exclude=True), 'n': 1.5,
              '__post_init__': lambda self: object.__setattr__(self, 'width', self.lo * 2)}
        out_format = rng.choice(('tuple', 'tuple', 'struct'))
        Span = type(f"KDer{next(_serial)}", (env.PaneBase,), ns, in_format=('tuple', 'struct'), out_format=out_format)
        Track = type(f"KTrk{next(_serial)}", (env.PaneBase,), {'__annotations__': {'spans': t.List[Span], 'best': t.Optional[Span]}, 'best': None, '__module__': __name__})
        a, b = Span(1, later[1]), Span(2, later[2], 2.5)
        targets = [(Span, a), (t.List[Span], [a, b]), (t.Dict[str, Span], {'k': b}), (t.Tuple[Span, str], (a, 's')), (t.Optional[Span], b),
                   (collections.deque[Span] if hasattr(collections.deque, '__class_getitem__') else t.Deque[Span], collections.deque([a]))]
        for TT, x in targets:
            ctx.count('derived_field_fixed_points')
            ctx.case(('derived', str(TT)[:40], out_format), nontrivial=True)
            y = observe(env.convert, x, TT)
            if y.kind != 'value' or not (y.val == x) or type(y.val) is not type(x):
                ctx.violation('typed-value-is-fixed-point', 'derived', i, {'type': short(TT, 200), 'typed': short(x, 200), 'out_format': out_format, 'convert': y.brief()},
                              mech='derived-field-before-positional-field')
                return
        c = observe(Track, [a, b], b)
        if c.kind != 'value' or c.val.spans != [a, b] or c.val.best != b:
            ctx.violation('ctor-accepts-typed-arguments', 'derived', i, {'class': 'Track(spans: List[Span], best: Optional[Span])', 'args': short([[a, b], b], 200),
                                                                          'out_format': out_format, 'constructor': c.brief()}, mech='derived-field-before-positional-field')

    import collections
    import fractions
    from ..tyast import _serial
    drive.for_each_case(ctx, 'derived', max(20, ctx.budget // 20), body_derived, gen=lambda c, r: Ty('int'))

    # values of a SUBCLASS where the declared type is the base (a str-mixin enum member, a StrEnum / IntEnum member, a `class Name(str)`
    # inside List[str], Dict[str, int], a dataclass field): convert gives back an EQUAL value (the base-typed image is what == compares)
    def body_subclass_under_base(i, rng, ty_unused, T_unused):
        import enum

        class Colour(str, enum.Enum):
            RED = 'red'
            BLUE = 'blue'

        class Level(enum.IntEnum):
            LOW = 1
            HIGH = 2

        class Mode(enum.StrEnum):
            A = 'a'

        class Name(str):
            pass

        class Num(int):
            pass

        class Ratio(float):
            pass
        Holder = type(f"KSub{next(_serial)}", (env.PaneBase,), {'__annotations__': {'names': t.List[str], 'n': int, 'table': t.Dict[str, float]},
                                                                 'n': 0, 'table': env.pfield(default_factory=dict), '__module__': __name__})
        rows = [(t.List[str], [Colour.RED, 'plain', Name('nm'), Mode.A]), (t.Tuple[str, int], (Colour.BLUE, Level.HIGH)), (t.Dict[str, int], {Mode.A: Num(3), 'k': Level.LOW}),
                (t.Set[str], {Name('x'), Colour.RED}), (t.Optional[int], Level.LOW), (t.List[float], [Ratio(1.5), 2.5, Level.HIGH]), (str, Colour.RED), (int, Num(7)),
                (t.Union[int, str], Colour.RED), (t.List[t.Union[int, str]], [Level.LOW, Name('z')])]
        for TT, x in rows:
            y = observe(env.convert, x, TT)
            ctx.count('subclass_under_base_checked')
            ctx.case(('subclass-under-base', str(TT)[:40], y.kind), nontrivial=True)
            if y.kind != 'value' or not (y.val == x):
                ctx.violation('typed-value-is-fixed-point', 'subclass-under-base', i, {'type': short(TT, 120), 'value': short(x, 200), 'convert': y.brief()},
                              mech='subclass-value-under-base-type-changed')
                return
        c = observe(Holder, [Colour.RED, Name('n2')], Level.HIGH, {Mode.A: Ratio(0.5)})
        if c.kind != 'value' or c.val.names != ['red', 'n2'] or c.val.n != 2 or c.val.table != {'a': 0.5}:
            ctx.violation('ctor-accepts-typed-arguments', 'subclass-under-base', i, {'class': 'Holder(names: List[str], n: int, table: Dict[str, float])',
                                                                                     'constructor': c.brief()}, mech='subclass-value-under-base-type-changed')

    drive.for_each_case(ctx, 'subclass-under-base', max(20, ctx.budget // 20), body_subclass_under_base, gen=lambda c, r: Ty('int'))

    # a type only a custom handler knows (its converter reads the DATA form and refuses instances, as user converters usually do), held
    # in Optional / Union / List fields: with the handlers passed, instances are fixed points through every spelling of convert
    def body_custom_only_type(i, rng, ty_unused, T_unused):
        class Point:
            def __init__(self, x, y): self.x, self.y = x, y
            def __eq__(self, o): return type(o) is Point and (o.x, o.y) == (self.x, self.y)
            def __hash__(self): return hash((self.x, self.y))
            def __repr__(self): return f"Point({self.x}, {self.y})"

        class PointConv(env.Converter):
            def expected(self, plural=False): return 'point'
            def into_data(self, val): return [val.x, val.y]
            def try_convert(self, val):
                if isinstance(val, (list, tuple)) and len(val) == 2 and all(type(c) is int for c in val):
                    return Point(*val)
                raise env.ParseInterrupt()
            def collect_errors(self, val):
                try:
                    self.try_convert(val)
                    return None
                except env.ParseInterrupt:
                    return env.m_errors.WrongTypeError(self.expected(), val)
        custom = {Point: PointConv()}
        Holder = type(f"KCu{next(_serial)}", (env.PaneBase,), {'__annotations__': {'p': t.Optional[Point], 'ps': t.List[t.Union[Point, str]], 'n': int},
                                                               'p': None, 'ps': env.pfield(default_factory=list), 'n': 0, '__module__': __name__})
        x = Holder.from_data({'p': [1, 2], 'ps': [[3, 4], 's'], 'n': 5}, custom=custom)
        for label, call in (('pane.convert(x, Cls, custom=)', lambda: env.convert(x, Holder, custom=custom)), ('Cls.from_obj(x, custom=)', lambda: Holder.from_obj(x, custom=custom)),
                            ('from_data(x.into_data(custom=), Cls, custom=)', lambda: env.from_data(x.into_data(custom=custom), Holder, custom=custom)),
                            ('from_data(into_data(x, Cls, custom=), ...)', lambda: env.from_data(env.into_data(x, Holder, custom=custom), Holder, custom=custom)),
                            ('convert(x.p, Optional[Point], custom=)', lambda: Holder(p=env.convert(x.p, t.Optional[Point], custom=custom), ps=x.ps, n=5) if False else
                             Holder.from_data({'p': env.into_data(env.convert(x.p, t.Optional[Point], custom=custom), t.Optional[Point], custom=custom),
                                               'ps': [[3, 4], 's'], 'n': 5}, custom=custom))):
            y = observe(call)
            ctx.count('custom_only_type_fixed_points')
            ctx.case(('custom-only-type', label[:20], y.kind), nontrivial=True)
            if y.kind != 'value' or not (y.val == x):
                ctx.violation('typed-value-is-fixed-point', 'custom-only-type', i, {'spelling': label, 'typed': short(x, 200), 'outcome': y.brief()},
                              mech='custom-handlers-lost-on-the-way-out')
                return

    drive.for_each_case(ctx, 'custom-only-type', max(20, ctx.budget // 30), body_custom_only_type, gen=lambda c, r: Ty('int'))

    # bare and Any-parametrised container types: a value of exactly the named class comes back as exactly that class (not as the plain
    # dict / list it compares equal to), alone, as a field, and through the constructor
    def body_bare(i, rng, ty, T):
        import collections as _c
        import typing as _t
        OD, DD = _c.OrderedDict, _c.defaultdict
        leaf = lambda: rng.choice((1, 'a', 2.5, None, True))
        table = [(list, lambda: [leaf(), leaf()]), (dict, lambda: {'a': leaf()}), (tuple, lambda: (leaf(), leaf())), (set, lambda: {1, 'a'}), (frozenset, lambda: frozenset({2})),
                 (OD, lambda: OD(b=leaf(), a=leaf())), (DD, lambda: DD(None, {'a': leaf()})), (_c.deque, lambda: _c.deque([leaf()])), (_c.Counter, lambda: _c.Counter('aab')),
                 (_t.OrderedDict, lambda: OD(z=1, a=2)), (_t.DefaultDict, lambda: DD(None, {'k': [leaf()]})), (_t.Deque, lambda: _c.deque([1, 2])), (_t.Counter, lambda: _c.Counter(a=2)),
                 (_t.List, lambda: [leaf()]), (_t.Dict, lambda: {'a': [leaf()]}), (_t.Set, lambda: {1}), (_t.FrozenSet, lambda: frozenset({'x'})), (_t.Tuple, lambda: (1, 'a')),
                 (_t.OrderedDict[_t.Any, _t.Any], lambda: OD(b=1, a=2)), (_t.OrderedDict[str, _t.Any], lambda: OD(b=leaf())), (_t.DefaultDict[str, _t.Any], lambda: DD(None, {'k': leaf()})),
                 (_t.DefaultDict[_t.Any, _t.Any], lambda: DD(None, {1: leaf()})), (_t.Deque[_t.Any], lambda: _c.deque(['q'])), (_c.ChainMap, lambda: _c.ChainMap({'a': 1}))]
        TT, mk = rng.choice(table)
        x = mk()
        Holder = type(f"BH{next(_serial)}", (env.PaneBase,), {'__annotations__': {'f': TT}, '__module__': __name__})
        ways = [('convert(x, T)', lambda: env.convert(x, TT)), ('from_data(into_data(x, T), T)', lambda: env.from_data(env.into_data(x, TT), TT)),
                ('Holder(f=x).f', lambda: Holder(f=x).f), ('Holder.from_data({f: data}).f', lambda: Holder.from_data({'f': env.into_data(x, TT)}).f)]
        for label, thunk in ways:
            o = observe(thunk)
            ctx.count('bare_container_checks')
            ctx.case(('bare', str(TT)[:40], label[:12], o.kind), nontrivial=True)
            if o.kind != 'value' or type(o.val) is not type(x) or o.val != x or (isinstance(x, _c.OrderedDict) and list(o.val) != list(x)):
                ctx.violation('typed-value-is-fixed-point', 'bare', i, {'type': short(TT, 80), 'value': short(x, 120), 'way': label, 'result': o.brief()[:200]},
                              mech=f"bare-container-not-a-fixed-point:{type(x).__name__}")
                return

    drive.for_each_case(ctx, 'bare', max(40, ctx.budget // 10), body_bare, gen=lambda c, r: Ty('int'))

    # path-like objects that are not pathlib paths (a class with only __fspath__, what os.PathLike promises): written as what the
    # object says its path is (os.fspath), so that the same class - or a pathlib type - reads it back
    def body_pathlike(i, rng, ty, T):
        import os as _os
        import pathlib as _pl
        import typing as _t

        class Resource:
            def __init__(self, p): self.p = _os.fspath(p)
            def __fspath__(self): return self.p
            def __eq__(self, o): return type(o) is Resource and o.p == self.p
            def __hash__(self): return hash(('res', self.p))
            def __repr__(self): return f"Resource({self.p!r})"
        text = rng.choice(('data/in.txt', '/abs/x', 'x.txt', 'a b/c'))
        x = Resource(text)
        Holder = type(f"PL{next(_serial)}", (env.PaneBase,), {'__annotations__': {'f': Resource, 'g': _pl.PurePosixPath}, '__module__': __name__})
        rows = [('convert(x, Resource)', lambda: env.convert(x, Resource), x), ('into_data(x, Resource)', lambda: env.into_data(x, Resource), text),
                ('convert(x, PurePosixPath)', lambda: env.convert(x, _pl.PurePosixPath), _pl.PurePosixPath(text)),
                ('convert([x], List[Resource])', lambda: env.convert([x], _t.List[Resource]), [x]),
                ('Holder(f=x, g=x)', lambda: (lambda h: (h.f, h.g))(Holder(f=x, g=x)), (x, _pl.PurePosixPath(text))),
                ('from_data(text, Resource)', lambda: env.from_data(text, Resource), x)]
        for label, call, want in rows:
            o = observe(call)
            ctx.count('pathlike_checks')
            ctx.case(('pathlike', label[:14], o.kind), nontrivial=True)
            if o.kind != 'value' or o.val != want or type(o.val) is not type(want):
                ctx.violation('typed-value-is-fixed-point', 'pathlike', i, {'value': short(x), 'call': label, 'result': o.brief()[:200], 'expected': short(want)},
                              mech='path-like-object-written-by-str-not-fspath')
                return

    drive.for_each_case(ctx, 'pathlike', 20, body_pathlike, gen=lambda c, r: Ty('int'))
