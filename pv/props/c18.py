"""C18 — custom converter precedence and reach."""
import itertools
import enum
import functools
import typing as t

from .. import env, drive
from ..common import observe
from ..ctx import short
from ..tyast import Ty, _serial

PLAN = {
    'quick': {'shards': 16, 'budget': 450},
    'thorough': {'shards': 64, 'budget': 6000, 'timeout': 7200},
}
LEVEL = 'exploration'
TECHNIQUE = "runtime monitoring: every handler source hands out a stamping converter, so the source that served each leaf is read off the conversion result itself and compared with the precedence order written from the statement"
RULE = ("all subsets of the handler sources {field converter, call-level handlers, own class handlers, inherited class handlers, "
        "enclosing class handlers, outer enclosing class handlers, registered global handler} x handler forms (function, sequence "
        "with a declining first handler, exact-type mapping, NotImplemented / NotImplementedError deferral) x probe kinds (built-in "
        "scalar int, HasConverter class, plain class, list subclass, int subclass for the exact-type rule) x nesting shapes (direct, "
        "List, Dict value, Optional, Tuple slot, Union, nested dataclasses to depth 3) x both directions. Global handlers are "
        "process-wide: odd shards register one before any conversion, even shards never do. distinct = (probe, sources, forms, shape, direction)")
ASSUMPTIONS = ["own class-level custom= replaces (does not merge with) inherited class handlers: 'its own or inherited'"]
ANCHORS = ['convert:make_converter', 'convert:ConverterHandlers.make', 'convert:ConverterHandlers._process', 'classes:PaneConverter.__init__',
           'classes:PaneBase.__init_subclass__', 'convert:from_data', 'convert:into_data']
MIN_COUNTERS = {'quick': {'configurations': 6000, 'from_data_leaves': 6000, 'into_data_leaves': 4000, 'deferrals': 800,
                          'exact_type_rule_checks': 300, 'writer_handler_checks': 1500, 'strict_converter_union_checks': 300, 'classes_built_with_handlers': 3000}}


class Stamp:
    def __init__(self, source, v):
        self.source, self.v = source, v

    def __eq__(self, other):
        return isinstance(other, Stamp) and (self.source, self.v) == (other.source, other.v)

    def __hash__(self):
        return hash((self.source, repr(self.v)))

    def __repr__(self):
        return f"Stamp<{self.source}>({self.v!r})"


class StampConv(env.Converter):
    def __init__(self, source):
        self.source = source

    def expected(self, plural=False):
        return f"stamp {self.source}"

    def try_convert(self, val):
        return Stamp(self.source, val)

    def collect_errors(self, val):
        return None

    def into_data(self, val):
        return ['out', self.source, val.v if isinstance(val, Stamp) else 'typed']


class ScaleConv(env.Converter):
    """ints are stored tenfold plus one: a handler applied twice, or not at all, shows in the number itself"""

    def expected(self, plural=False):
        return "scaled ints"

    def try_convert(self, val):
        if type(val) is int and val % 10 == 1:
            return val // 10
        raise env.ParseInterrupt()

    def collect_errors(self, val):
        if type(val) is int and val % 10 == 1:
            return None
        return env.m_errors.WrongTypeError(self.expected(), val)

    def into_data(self, val):
        return val * 10 + 1


class HasConv:
    @classmethod
    def _converter(cls, *args, handlers):
        return StampConv('protocol')


class Plain:
    pass


class ListSub(list):
    pass


class MyInt(int):
    pass


class Colour(enum.Enum):
    RED = 'r'
    BLUE = 'b'


class Perm(enum.Flag):
    R = 1
    W = 2


# an Enum has a built-in converter (a structural one: it comes after the registered global handlers); a Flag has none
PROBES = {'scalar': int, 'hasconv': HasConv, 'plain': Plain, 'listsub': ListSub, 'enum': Colour, 'flag': Perm}
DATA = {'scalar': 5, 'hasconv': 'x', 'plain': 'x', 'listsub': [1, 2], 'enum': 'r', 'flag': 1}
GLOBAL_REGISTERED = False


def global_handler(ty, args, *, handlers):
    if ty in (int, HasConv, Plain, ListSub, Colour, Perm):
        return StampConv('global')
    return NotImplemented


def make_handlers(source, P, form, rng):
    """custom= argument whose serving converter stamps `source`. Returns (custom, serves: bool)."""
    conv = StampConv(source)

    def serve(ty, args, *, handlers):
        return conv if ty is P else NotImplemented

    def decline(ty, args, *, handlers):
        return NotImplemented

    def decline_exc(ty, args, *, handlers):
        raise NotImplementedError()

    class Callable_:
        def __call__(self, ty, args, *, handlers):
            return conv if ty is P else NotImplemented

        def method(self, ty, args, *, handlers):
            return conv if ty is P else NotImplemented

    def with_extra(extra, ty, args, *, handlers):
        return conv if ty is P else NotImplemented

    if form == 'callable-object': return Callable_(), True
    if form == 'bound-method': return Callable_().method, True
    if form == 'partial': return functools.partial(with_extra, 'x'), True
    if form == 'function': return serve, True
    if form == 'sequence': return [decline, serve], True
    if form == 'sequence-exc': return (decline_exc, serve), True
    if form == 'mapping': return {P: conv}, True
    if form == 'declines': return decline, False
    if form == 'declines-exc': return [decline_exc], False
    if form == 'mapping-other': return {bytes: conv, float: conv}, False
    raise ValueError(form)


SERVING = ('function', 'sequence', 'sequence-exc', 'mapping', 'callable-object', 'bound-method', 'partial')
DECLINING = ('declines', 'declines-exc', 'mapping-other')
SHAPES = ('direct', 'list', 'dictval', 'optional', 'tuple', 'union')


def shape_type(P, shape):
    return {'direct': P, 'list': t.List[P], 'dictval': t.Dict[str, P], 'optional': t.Optional[P], 'tuple': t.Tuple[P, str],
            'union': t.Union[P, None]}[shape]


def shape_data(v, shape):
    return {'direct': v, 'list': [v, v], 'dictval': {'k': v}, 'optional': v, 'tuple': [v, 's'], 'union': v}[shape]


def leaves(x, shape):
    if shape in ('direct', 'optional', 'union'): return [x]
    if shape == 'list': return list(x)
    if shape == 'dictval': return list(x.values())
    if shape == 'tuple': return [x[0]]


TV = t.TypeVar('TV')


def mk_class(name, field_type, opts, base=None, field_conv=None, generic=None):
    """generic: None | 'subscript' (class C(Generic[TV]): f: TV; use C[field_type]) | 'subclass' (class D(C[field_type]))"""
    import types as _types
    ns = {'__annotations__': {'f': TV if generic else field_type}, '__module__': __name__}
    if field_conv is not None:
        ns['f'] = env.pfield(converter=field_conv)
    if not generic:
        return type(name, (base or env.PaneBase,), ns, **opts)
    G = _types.new_class(name, (base or env.PaneBase, t.Generic[TV]), dict(opts), lambda d: d.update(ns))
    if generic == 'subscript':
        return G[field_type]
    return type(name + 'Sub', (G[field_type],), {'__annotations__': {}, '__module__': __name__})


def run(ctx):
    global GLOBAL_REGISTERED
    want_global = ctx.shard % 2 == 1
    if want_global and not GLOBAL_REGISTERED:
        env.m_convert.register_converter_handler(global_handler)
        GLOBAL_REGISTERED = True
    ctx.count('shards_with_global_handler' if want_global else 'shards_without_global_handler')

    def body(i, rng, ty, T):
        probe = rng.choice(sorted(PROBES))
        P = PROBES[probe]
        shape = rng.choice(SHAPES)
        depth = rng.choice((0, 1, 1, 2, 3))        # number of enclosing dataclasses around the probe's field
        # which sources are present, and in which form
        present = {s: rng.random() < 0.4 for s in ('field', 'call', 'own', 'inherited', 'outer1', 'outer2')}
        if depth == 0:
            present.update(field=False, own=False, inherited=False, outer1=False, outer2=False)
        if depth < 2: present['outer1'] = False
        if depth < 3: present['outer2'] = False
        if present['field'] and shape != 'direct':
            present['field'] = False      # a field converter replaces the whole field's converter
        forms = {s: (rng.choice(SERVING) if rng.random() < 0.7 else rng.choice(DECLINING)) for s in ('call', 'own', 'inherited', 'outer1', 'outer2')}
        customs, serves = {}, {}
        for s in forms:
            customs[s], serves[s] = make_handlers(s, P, forms[s], rng)
            if not serves[s] and present[s]:
                ctx.count('deferrals')
        if present['own'] and present['outer2'] and rng.random() < 0.5:
            # ONE handler object given to the innermost class and to the outermost one (a shared function / registry), another in between
            customs['outer2'], serves['outer2'], forms['outer2'] = customs['own'], serves['own'], forms['own']
            ctx.count('shared_handler_object_configurations')
        # expected winner
        order = ['call'] + (['own'] if present['own'] else ['inherited']) + ['outer1', 'outer2']
        winner = None
        if present['field']:
            winner = 'field'
        else:
            for s in order:
                if present[s] and serves[s]:
                    winner = s
                    break
        if winner is None:
            if probe == 'hasconv': winner = 'protocol'
            elif probe == 'scalar': winner = 'builtin'
            elif want_global: winner = 'global'
            elif probe in ('listsub', 'enum'): winner = 'structural'
            else: winner = 'no-converter'
        # build the type
        FT = shape_type(P, shape)
        top = FT
        if depth >= 1:
            # every handler form the documentation lists is legal at class level as well: a class statement that
            # refuses one is a violation, not a harness problem
            try:
                base = None
                if present['inherited']:
                    base = type(f"CB{next(_serial)}", (env.PaneBase,), {'__annotations__': {}, '__module__': __name__}, custom=customs['inherited'])
                copts = {'custom': customs['own']} if present['own'] else {}
                generic = rng.choice((None, None, 'subscript', 'subclass'))
                C = mk_class(f"C{next(_serial)}", FT, copts, base, StampConv('field') if present['field'] else None, generic)
                if generic:
                    ctx.count('generic_field_classes')
                top = C
                if depth >= 2:
                    top = mk_class(f"O{next(_serial)}", rng.choice((C, t.List[C], t.Optional[C])), {'custom': customs['outer1']} if present['outer1'] else {})
                    wrap1 = t.get_origin(top.__pane_info__.fields[0].type)
                if depth >= 3:
                    top = mk_class(f"OO{next(_serial)}", top, {'custom': customs['outer2']} if present['outer2'] else {})
            except Exception as e:
                ctx.count('class_build_failed')
                used = sorted({forms[s] for s in ('own', 'inherited', 'outer1', 'outer2') if present[s]})
                ctx.violation('precedence', 'main', i, {'probe': probe, 'shape': shape, 'depth': str(depth), 'forms': str(used),
                                                        'observed': f"class statement with class-level custom= raised {type(e).__name__}: {str(e)[:200]}"},
                              mech='class-level-custom-form-refused:' + ','.join(used))
                return
            ctx.count('classes_built_with_handlers')
        # data
        v = shape_data(DATA[probe], shape)
        data = v
        C_field_types = []
        cur = top
        path = []
        chain = []
        d = depth
        if depth >= 1:
            data = {'f': v}
            lvl_types = []
            # walk from the outermost class down to C
            cls_chain = []
            c = top
            while hasattr(c, '__pane_info__'):
                cls_chain.append(c)
                ft = c.__pane_info__.fields[0].type
                inner = ft
                if t.get_origin(ft) in (list, t.Union):
                    inner = [a for a in t.get_args(ft) if a is not type(None)][0]
                if hasattr(inner, '__pane_info__'):
                    lvl_types.append(t.get_origin(ft))
                    c = inner
                else:
                    break
            for org in reversed(lvl_types):
                data = {'f': [data] if org is list else data}
        call_custom = customs['call'] if present['call'] else None
        cfg = {'probe': probe, 'shape': shape, 'depth': depth, 'present': {k: v_ for k, v_ in present.items() if v_},
               'forms': {k: forms[k] for k in forms if present.get(k)}, 'global_registered': want_global, 'expected_winner': winner}
        ctx.count('configurations')
        out = observe(env.from_data, data, top, custom=call_custom)
        ctx.case((probe, tuple(sorted(k for k, v_ in present.items() if v_)), tuple(sorted(cfg['forms'].items())), shape, depth, want_global, 'from'),
                 sample={**cfg, 'data': short(data, 100), 'outcome': out.brief()[:150]})
        wit = {**cfg, 'data': short(data, 200), 'outcome': out.brief()}
        if winner == 'no-converter':
            if out.kind != 'escape' or not isinstance(out.exc, TypeError):
                ctx.violation('precedence', 'main', i, wit, mech='plain-class-served-by-nobody')
            return
        if out.kind != 'value':
            ctx.violation('precedence', 'main', i, wit, mech=f"expected-{winner}:conversion-failed")
            return

        def dig(x):
            """descend through the enclosing dataclasses to the probe's field value"""
            while hasattr(type(x), '__pane_info__'):
                x = getattr(x, 'f')
                if isinstance(x, list) and x and hasattr(type(x[0]), '__pane_info__'):
                    x = x[0]
            return x

        fv = dig(out.val)
        got = []
        for leaf in leaves(fv, shape):
            ctx.count('from_data_leaves')
            if isinstance(leaf, Stamp): got.append(leaf.source)
            elif isinstance(leaf, (ListSub, Colour)): got.append('structural')
            elif type(leaf) is int: got.append('builtin')
            else: got.append(f"?{type(leaf).__name__}")
        if any(g != winner for g in got):
            wit['leaf_sources'] = got
            ctx.violation('precedence', 'main', i, wit, mech=f"from_data:{winner}-expected-{got[0]}-served")
            return
        # serialisation direction with the same handlers
        back = observe(env.into_data, out.val, top, custom=call_custom)
        ctx.case((probe, tuple(sorted(k for k, v_ in present.items() if v_)), shape, depth, want_global, 'into'))
        if back.kind != 'value':
            ctx.violation('precedence', 'main', i, {**wit, 'into_data': back.brief()}, mech=f"into_data-failed:{winner}")
            return

        def dig_data(dd):
            while isinstance(dd, dict) and set(dd.keys()) == {'f'}:
                dd = dd['f']
                if isinstance(dd, list) and dd and isinstance(dd[0], dict) and set(dd[0].keys()) == {'f'}:
                    dd = dd[0]
            return dd

        bd = dig_data(back.val) if depth else back.val
        if shape in ('direct', 'optional', 'union'): bl = [bd]
        elif shape == 'list': bl = list(bd)
        elif shape == 'dictval': bl = list(bd.values())
        else: bl = [bd[0]]
        for leaf in bl:
            ctx.count('into_data_leaves')
            if winner in ('builtin',):
                ok = leaf == 5
            elif winner == 'structural':
                ok = leaf == DATA[probe]
            else:
                ok = isinstance(leaf, list) and len(leaf) == 3 and leaf[0] == 'out' and leaf[1] == winner
            if not ok:
                ctx.violation('precedence', 'main', i, {**wit, 'into_data': short(back.val, 200)}, mech=f"into_data:{winner}-expected")
                return

    drive.for_each_case(ctx, 'main', ctx.budget, body, gen=lambda c, r: Ty('int'), seconds=30)

    # a field converter is the field's converter in BOTH directions, also for a field that is not read from data (init=False)
    def body_initfalse(i, rng, ty, T):
        kind = rng.choice(('init-false-default', 'init-false-post-init', 'kw-only', 'excluded-sibling'))
        ns = {'__annotations__': {'a': int, 'total': int}, '__module__': __name__}
        if kind == 'init-false-default':
            ns['total'] = env.pfield(init=False, default=32, converter=StampConv('field'))
        elif kind == 'init-false-post-init':
            ns['total'] = env.pfield(init=False, converter=StampConv('field'))
            ns['__post_init__'] = lambda self: object.__setattr__(self, 'total', self.a * 2)
        elif kind == 'kw-only':
            ns['total'] = env.pfield(kw_only=True, default=32, converter=StampConv('field'))
        else:
            ns['__annotations__'] = {'a': int, 'hidden': int, 'total': int}
            ns['hidden'] = env.pfield(default=0, exclude=True)
            ns['total'] = env.pfield(default=32, converter=StampConv('field'))
        cls = type(f"KF{next(_serial)}", (env.PaneBase,), ns, out_format=rng.choice(('struct', 'tuple')), in_format=('struct', 'tuple'))
        inst = observe(cls, 5)
        ctx.count('field_converter_output_checks')
        if inst.kind != 'value':
            ctx.violation('precedence', 'initfalse', i, {'kind': kind, 'construct': inst.brief()}, mech='field-converter:construction-failed')
            return
        d = observe(inst.val.into_data)
        ctx.case(('field-converter-output', kind, d.kind), nontrivial=True)
        flat = list(d.val.values()) if d.kind == 'value' and isinstance(d.val, dict) else (list(d.val) if d.kind == 'value' else [])
        stamped = [x for x in flat if isinstance(x, list) and len(x) == 3 and x[0] == 'out' and x[1] == 'field']
        if d.kind != 'value' or len(stamped) != 1:
            ctx.violation('precedence', 'initfalse', i, {'kind': kind, 'instance': short(inst.val), 'into_data': d.brief()}, mech=f"field-converter-not-used-on-output:{kind}")

    drive.for_each_case(ctx, 'initfalse', 40, body_initfalse, gen=lambda c, r: Ty('int'))

    # an UNPARAMETERISED generic dataclass whose field is typed by a bounded / constrained type variable: the variable is read as its
    # bound, and the handlers in force are those of each use (call-level A, call-level B, class-level, none), in any order
    def body_typevar(i, rng, ty, T):
        import types as _types
        import warnings
        TB = t.TypeVar(f"TB{i}", bound=int) if rng.random() < 0.6 else t.TypeVar(f"TC{i}", int, str)
        G = _types.new_class(f"GV{next(_serial)}", (env.PaneBase, t.Generic[TB]), {}, lambda ns: ns.update({'__annotations__': {'f': TB, 'n': int}, 'n': 0, '__module__': __name__}))
        H = _types.new_class(f"GW{next(_serial)}", (env.PaneBase, t.Generic[TB]), {'custom': {int: StampConv('class')}},
                             lambda ns: ns.update({'__annotations__': {'f': TB}, '__module__': __name__}))
        uses = [('A', lambda: env.from_data({'f': 5}, G, custom={int: StampConv('A')}), 'A'), ('B', lambda: env.from_data({'f': 5}, G, custom={int: StampConv('B')}), 'B'),
                ('none', lambda: env.from_data({'f': 5}, G), None), ('class', lambda: H.from_data({'f': 5}), 'class'),
                ('list-A', lambda: env.from_data([{'f': 5}], t.List[G], custom={int: StampConv('A')})[0], 'A')]
        seq = [rng.choice(uses) for _ in range(rng.randint(3, 6))]
        with warnings.catch_warnings():
            warnings.simplefilter('ignore')
            for step, (name, call, stamp) in enumerate(seq):
                o = observe(call)
                ctx.count('typevar_field_handler_uses')
                ctx.case(('typevar-field', name, o.kind), nontrivial=True)
                got = o.val.f if o.kind == 'value' else None
                ok = o.kind == 'value' and ((stamp is None and type(got) is int and got == 5) or (stamp is not None and isinstance(got, Stamp) and got.source == stamp))
                if not ok:
                    ctx.violation('precedence', 'typevar', i, {'type_variable': repr(TB), 'uses_in_order': [n for n, *_ in seq], 'step': step, 'use': name,
                                                               'expected': stamp or 'plain int', 'outcome': o.brief()}, mech='typevar-field:handlers-of-another-use')
                    return

    drive.for_each_case(ctx, 'typevar', 40, body_typevar, gen=lambda c, r: Ty('int'))

    # handlers passed to a call reach every depth on the way OUT as well - also where no type says what is there: an inferred list /
    # tuple / set / mapping, typing.Any (top level, container element, tuple slot, dataclass field), ValueOrList elements
    def body_output_reach(i, rng, ty, T):
        from pane.types import ValueOrList
        conv = StampConv('call')
        custom = rng.choice(({int: conv}, lambda ty_, args, *, handlers: conv if ty_ is int else NotImplemented))
        Holder = type(f"KO{next(_serial)}", (env.PaneBase,), {'__annotations__': {'x': t.Any, 'n': int, 'items': t.List[t.Any]}, 'n': 0,
                                                               'items': env.pfield(default_factory=list), '__module__': __name__})
        rows = [('inferred list', [10, 's'], None), ('List[Any]', [10], t.List[t.Any]), ('inferred tuple', (10, 'k'), None), ('inferred mapping', {'a': 10}, None),
                ('Dict[str, Any]', {'a': 10}, t.Dict[str, t.Any]), ('nested inferred', [[10], {'k': [10]}], None), ('Any', 10, t.Any), ('Any holding a list', [10], t.Any),
                ('dataclass with Any field', Holder(10, 5, [10]), Holder), ('dataclass, type inferred', Holder(10, 5, [10]), None),
                ('ValueOrList[int] (list)', ValueOrList.from_list([10, 11]), ValueOrList[int]), ('ValueOrList[int] (value)', ValueOrList.from_val(10), ValueOrList[int]),
                ('Tuple[Any, int]', (10, 10), t.Tuple[t.Any, int]), ('inferred set', {10}, None), ('Sequence[Any]', (10,), t.Sequence[t.Any]),
                ('Optional[Any]', 10, t.Optional[t.Any])]
        rng.shuffle(rows)

        def int_leaves(d, out):
            if isinstance(d, list) and len(d) == 3 and d[0] == 'out':
                out.append(d[1])
            elif isinstance(d, dict):
                for v_ in d.values():
                    int_leaves(v_, out)
            elif isinstance(d, (list, tuple)):
                for v_ in d:
                    int_leaves(v_, out)
            elif type(d) is int:
                out.append('<plain int>')
            return out
        for name, v, TT in rows:
            o = observe(env.into_data, v, TT, custom=custom) if TT is not None else observe(env.into_data, v, custom=custom)
            ctx.count('output_reach_rows')
            ctx.case(('output-reach', name, o.kind), nontrivial=True)
            leaves_ = int_leaves(o.val, []) if o.kind == 'value' else None
            if o.kind != 'value' or not leaves_ or any(l != 'call' for l in leaves_):
                ctx.violation('precedence', 'output-reach', i, {'position': name, 'value': short(v, 120), 'type': short(TT, 80), 'into_data': o.brief(),
                                                                'int_leaves_written_by': leaves_}, mech=f"into_data:call-handler-does-not-reach:{name.split(' (')[0]}")
                return

    drive.for_each_case(ctx, 'output-reach', 40, body_output_reach, gen=lambda c, r: Ty('int'))

    # the writer methods and functions with custom= apply the handlers ONCE: what they write is into_data(x, custom=) as text
    def body_writers(i, rng, ty, T):
        import io as _io
        import json as _json
        import yaml as _yaml
        conv = rng.choice((StampConv('call'), ScaleConv(), ScaleConv()))
        custom = rng.choice(({int: conv}, lambda ty, args, *, handlers: conv if ty is int else NotImplemented))
        Holder = type(f"KW{next(_serial)}", (env.PaneBase,), {'__annotations__': {'n': int, 'items': t.List[int], 'name': str}, 'items': env.pfield(default_factory=list),
                                                               'name': 'nm', '__module__': __name__})
        x = Holder(5, [1, 2])
        want = observe(env.into_data, x, Holder, custom=custom)
        if want.kind != 'value':
            return
        def to_stream(f, **kw):
            s_ = _io.StringIO()
            f(s_, **kw)
            return s_.getvalue()
        ways = [('x.write_json(custom=)', lambda: _json.loads(x.write_json(custom=custom))), ('x.write_json(stream, custom=)', lambda: _json.loads(to_stream(x.write_json, custom=custom))),
                ('x.write_yaml(custom=)', lambda: _yaml.safe_load(x.write_yaml(custom=custom))), ('x.write_yaml(stream, custom=)', lambda: _yaml.safe_load(to_stream(x.write_yaml, custom=custom))),
                ('io.write_json(x, stream, ty=, custom=)', lambda: _json.loads(to_stream(lambda s_, **kw: env.m_io.write_json(x, s_, ty=Holder, **kw), custom=custom))),
                ('io.write_yaml(x, stream, custom=)', lambda: _yaml.safe_load(to_stream(lambda s_, **kw: env.m_io.write_yaml(x, s_, **kw), custom=custom))),
                ('x.into_data(custom=)', lambda: x.into_data(custom=custom))]
        for label, thunk in ways:
            got = observe(thunk)
            ctx.count('writer_handler_checks')
            ctx.case(('writers', label[:24], got.kind), nontrivial=True)
            if got.kind != 'value' or got.val != want.val:
                ctx.violation('precedence', 'writers', i, {'writer': label, 'written': got.brief(), 'into_data(x, Cls, custom=)': want.brief()}, mech='writer:handlers-not-applied-exactly-once')
                return

    drive.for_each_case(ctx, 'writers', 30, body_writers, gen=lambda c, r: Ty('int'))

    # a STRICT converter (one that reads only its own data form and so refuses the typed value it produced - the style of the
    # documentation's examples) still serialises through unions: no member "recognises" the typed value, and the union's fallback must
    # keep the handlers, for builtin scalars too
    def body_strict_unions(i, rng, ty, T):
        conv = ScaleConv()
        level = rng.choice(('call', 'class'))
        shape = rng.choice(('optional', 'union-str-first', 'union-int-first', 'list-of-optional', 'dict-of-union', 'plain', 'list'))
        FT = {'optional': t.Optional[int], 'union-str-first': t.Union[str, int], 'union-int-first': t.Union[int, str], 'list-of-optional': t.List[t.Optional[int]],
              'dict-of-union': t.Dict[str, t.Union[None, int]], 'plain': int, 'list': t.List[int]}[shape]
        typed = {'list-of-optional': [5, None, 7], 'dict-of-union': {'a': 5, 'b': None}, 'list': [5, 7]}.get(shape, 5)
        data = {'list-of-optional': [51, None, 71], 'dict-of-union': {'a': 51, 'b': None}, 'list': [51, 71]}.get(shape, 51)
        custom = {int: conv}
        if level == 'call':
            out = observe(env.into_data, typed, FT, custom=custom)
            back = observe(env.from_data, data, FT, custom=custom)
            want_out, want_back = data, typed
        else:
            H = type(f"SU{next(_serial)}", (env.PaneBase,), {'__annotations__': {'plain': int, 'f': FT}, '__module__': __name__}, custom=custom)
            x = H.make_unchecked(3, typed)
            out = observe(x.into_data)
            back = observe(H.from_data, {'plain': 31, 'f': data})
            want_out, want_back = {'plain': 31, 'f': data}, x
        ctx.count('strict_converter_union_checks')
        ctx.case(('strict-unions', level, shape, out.kind, back.kind), nontrivial=True)
        if out.kind != 'value' or out.val != want_out or back.kind != 'value' or back.val != want_back:
            ctx.violation('precedence', 'strict-unions', i, {'handler_level': level, 'field_type': short(FT, 80), 'typed_value': short(typed), 'into_data': out.brief()[:200],
                                                             'expected_data': short(want_out), 'from_data': back.brief()[:200]},
                          mech=f"strict-converter-lost-through-union:{'out' if out.kind != 'value' or out.val != want_out else 'in'}")

    drive.for_each_case(ctx, 'strict-unions', 40, body_strict_unions, gen=lambda c, r: Ty('int'))

    # the mapping form matches only the exact unparameterised type
    def body_exact(i, rng, ty, T):
        conv = StampConv('mapping')
        for target, data, should in ((list, [1], True), (t.List[int], [1], False), (int, 5, True), (dict, {'a': 1}, True),
                                     (t.Dict[str, int], {'a': 1}, False), (t.Optional[int], 5, True), (t.List[list], [[1]], True),
                                     (ListSub, [1], False), (t.Tuple[int, ...], [1], False), (t.List[t.Any], [1], False),
                                     (list[t.Any], [1], False), (t.Dict[t.Any, t.Any], {'a': 1}, False)):
            key = {list: list, t.List[int]: list, int: int, dict: dict, t.Dict[str, int]: dict, t.Optional[int]: int, t.List[list]: list,
                   ListSub: list, t.Tuple[int, ...]: tuple, t.List[t.Any]: list, list[t.Any]: list, t.Dict[t.Any, t.Any]: dict}[target]
            out = observe(env.from_data, data, target, custom={key: conv})
            ctx.count('exact_type_rule_checks')
            ctx.case(('exact-type', str(target), should, out.kind))
            if out.kind != 'value':
                ctx.violation('mapping-form-exact-type', 'exact', i, {'target': str(target), 'mapping_key': str(key), 'outcome': out.brief()}, mech='exact-type:failed')
                continue
            x = out.val
            if target is t.List[list]:
                x = x[0]
            stamped = isinstance(x, Stamp) and x.source == 'mapping'
            if stamped != should:
                ctx.violation('mapping-form-exact-type', 'exact', i, {'target': str(target), 'mapping_key': str(key), 'result': short(out.val), 'should_match': should},
                              mech=f"exact-type:{'missed' if should else 'matched-parametrised-or-subclass'}")

    drive.for_each_case(ctx, 'exact', 40, body_exact, gen=lambda c, r: Ty('int'))

    # a mapping passed as custom= is read at the time of the call: editing it between calls takes effect
    def body_edit(i, rng, ty, T):
        target, data = rng.choice(((int, 5), (t.List[int], [5]), (t.Dict[str, int], {'k': 5}), (t.Optional[int], 5)))
        d = {int: StampConv('first')}
        steps = []
        def leaf(x):
            while isinstance(x, (list, dict)):
                x = (list(x.values()) if isinstance(x, dict) else x)[0]
            return x.source if isinstance(x, Stamp) else 'builtin'
        for step, expect in (('as-built', 'first'), ('replaced', 'second'), ('removed', 'builtin'), ('re-added', 'third')):
            if step == 'replaced': d[int] = StampConv('second')
            elif step == 'removed': del d[int]
            elif step == 're-added': d[int] = StampConv('third')
            out = observe(env.from_data, data, target, custom=d)
            ctx.count('edited_mapping_steps')
            got = leaf(out.val) if out.kind == 'value' else out.brief()
            steps.append((step, got))
            ctx.case(('edited-mapping', str(target), step, got))
            if got != expect:
                ctx.violation('handlers-are-those-passed-to-the-call', 'edit', i, {'target': str(target), 'history': steps, 'expected': expect},
                              mech=f"edited-mapping:{step}")
                return

    drive.for_each_case(ctx, 'edit', 30, body_edit, gen=lambda c, r: Ty('int'))

    # one handler function used at two levels in one process: as an enclosing class's custom= and, later (or earlier),
    # as the call-level custom= of a direct conversion of the inner class - the level decides who wins, not the history
    def body_levels(i, rng, ty, T):
        P = Plain
        conv_h, conv_own = StampConv('H'), StampConv('own')

        def h(ty_, args, *, handlers):
            return conv_h if ty_ is P else NotImplemented

        def own(ty_, args, *, handlers):
            return conv_own if ty_ is P else NotImplemented

        Inner = mk_class(f"IN{next(_serial)}", P, {'custom': own})
        Outer = mk_class(f"OUT{next(_serial)}", Inner, {'custom': h})
        steps = [('via-outer', lambda: env.from_data({'f': {'f': 'x'}}, Outer), lambda r: r.f.f, 'own'),
                 ('direct-with-call-level', lambda: env.from_data({'f': 'x'}, Inner, custom=h), lambda r: r.f, 'H'),
                 ('direct-plain', lambda: env.from_data({'f': 'x'}, Inner), lambda r: r.f, 'own')]
        rng.shuffle(steps)
        hist = []
        for name, call, leaf, expect in steps + steps[:2]:
            o = observe(call)
            got = leaf(o.val).source if o.kind == 'value' and isinstance(leaf(o.val), Stamp) else o.brief()
            hist.append((name, got))
            ctx.count('level_history_steps')
            ctx.case(('levels', name, got))
            if got != expect:
                ctx.violation('precedence', 'levels', i, {'history': hist, 'step': name, 'expected_winner': expect}, mech=f"handler-level-history:{name}")
                return

    drive.for_each_case(ctx, 'levels', 30, body_levels, gen=lambda c, r: Ty('int'))

    # Any-typed mapping positions in the serialising direction: whatever reach call-level handlers have there, keys and
    # values of one mapping are treated alike (the statement does not say more about Any; it does say "every depth")
    def body_anykeys(i, rng, ty, T):
        conv = StampConv('call')
        stamped = lambda x: isinstance(x, (list, tuple)) and len(x) == 3 and x[0] == 'out' and x[1] == 'call'
        for target in (t.Dict[t.Any, t.Any], dict, t.Mapping[t.Any, t.Any], t.Dict[t.Any, str], t.Dict[str, t.Any]):
            o = observe(env.into_data, {'k': 'v'}, target, custom={str: conv})
            ctx.count('any_position_checks')
            ctx.case(('any-position', str(target), o.kind))
            if o.kind != 'value' or len(o.val) != 1:
                ctx.violation('handlers-reach-every-depth', 'anykeys', i, {'type': str(target), 'into_data': o.brief()}, mech='any-typed-mapping-failed')
                continue
            (k_, v_), = o.val.items()
            if stamped(k_) != stamped(v_):
                ctx.violation('handlers-reach-every-depth', 'anykeys', i,
                              {'type': str(target), 'value': "{'k': 'v'}", 'custom': '{str: stamp}', 'into_data': short(o.val), 'key_served': stamped(k_), 'value_served': stamped(v_)},
                              mech='mapping-key-and-value-treated-differently')

    drive.for_each_case(ctx, 'anykeys', 10, body_anykeys, gen=lambda c, r: Ty('int'))

    # a global handler registered AFTER a dataclass was first converted reaches its fields from then on (once per shard, at the end)
    try:
        import enum as _enum
        E0 = _enum.Enum(f"LateE{next(_serial)}", {'RED': 'red'})
        E0._pv_c18_late = True
        LH = type(f"LateH{next(_serial)}", (env.PaneBase,), {'__annotations__': {'c': E0, 'cs': t.List[E0]}, 'cs': env.pfield(default_factory=list), '__module__': __name__})
        first = [observe(LH.from_data, {'c': 'red', 'cs': ['red']}), observe(lambda: LH.from_data({'c': 'red'}).into_data()), observe(env.into_data, [E0.RED])]
        late_conv = StampConv('late')
        env.m_convert.register_converter_handler(lambda ty, args, *, handlers: late_conv if isinstance(ty, type) and getattr(ty, '_pv_c18_late', False) is True else NotImplemented)
        for label, call, ok in (('Cls.from_data, field', lambda: LH.from_data({'c': 'red'}).c, lambda r: isinstance(r, Stamp) and r.source == 'late'),
                                ('Cls.from_data, list field', lambda: LH.from_data({'c': 'red', 'cs': ['red']}).cs[0], lambda r: isinstance(r, Stamp) and r.source == 'late'),
                                ('x.into_data(), field', lambda: LH.make_unchecked(E0.RED).into_data()['c'], lambda r: isinstance(r, list) and r[:2] == ['out', 'late']),
                                ('into_data([member])', lambda: env.into_data([E0.RED])[0], lambda r: isinstance(r, list) and r[:2] == ['out', 'late'])):
            o = observe(call)
            ctx.count('late_registration_checks')
            ctx.case(('late-registration', label, o.kind), nontrivial=True)
            if o.kind != 'value' or not ok(o.val):
                ctx.violation('precedence', 'late-registration', 0, {'use': label, 'outcome': o.brief()[:200], 'before_the_registration': [e.brief()[:60] for e in first]},
                              mech='global-handler-does-not-reach-a-class-converted-before-its-registration')
                break
    except Exception as e:
        ctx.crash('late-registration', 0, e)
