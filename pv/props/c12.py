"""C12 — tagged unions dispatch on the tag alone; the three layouts are symmetric."""
import typing as t

from .. import env, genval, gentypes, drive, model
from ..common import observe, build_type
from ..ctx import short
from ..deepeq import deep_typed_eq
from ..tyast import Ty, describe, skeleton, build, py_class, _serial
from . import c07

PLAN = {
    'quick': {'shards': 16, 'budget': 500},
    'thorough': {'shards': 64, 'budget': 8000, 'timeout': 7200},
}
LEVEL = 'exploration'
TECHNIQUE = "runtime monitoring: variant-table oracle computed without looking at the body (tag -> variant), differential against the chosen variant converted alone with the real code, and layout-exact serialisation check"
RULE = ("variant sets of 2-4 generated dataclasses (tag values str/int/float/bytes/None/bool, bodies deliberately overlapping) and "
        "class-attribute style variants x 3 layouts x 5 Mapping carriers x {right shape, tag absent/renamed/unknown/ill-kinded "
        "(list, dict, None, nan, bool), extra keys, swapped, tag inside the body}; oracle: known tag => outcome (instance or "
        "error tree) identical to the chosen variant alone; otherwise ConvertError naming the tag / layout keys; duplicate tag "
        "values refused at make_converter; into_data writes exactly the layout and re-parses to the same instance. "
        "distinct = (layout, carrier, shape class, outcome, variant index)")
ASSUMPTIONS = ["a tag equal to a declared tag but of another kind (1 vs True) is unspecified and skipped"]
ANCHORS = ['annotations:Tagged._converter', 'converters:TaggedUnionConverter.__init__', 'converters:TaggedUnionConverter.try_convert',
           'converters:TaggedUnionConverter.collect_errors', 'converters:TaggedUnionConverter.into_data', 'convert:_annotated_converter']
MIN_COUNTERS = {'quick': {'known_tag_checked': 20000, 'bad_tag_checked': 15000, 'serialise_checked': 8000,
                          'other_variant_would_accept': 500, 'duplicate_tag_types_refused': 100, 'cross_kind_duplicate_tags_refused': 200}}


def shape_class(ty, v):
    ex = model.tagged_extract(ty, v) if model.is_map(v) else None
    if not model.is_map(v): return 'non-mapping'
    if ex is None: return 'layout-shape-wrong'
    i = model.tagged_variant(ty, ex[0])
    if i is None: return 'unknown-or-ill-kinded-tag'
    if i == 'uns': return 'unspec'
    return 'known-tag'


def names_the_tag(ty, text, ex):
    tagname, ext = ty.x['tag'], ty.x['external']
    vals = [repr(m.x['spec'].tagval) for m in ty.a]
    if ex is not None:          # tag extracted but unknown / ill-kinded
        return tagname in text
    if ext is False:
        return tagname in text
    if ext is True:
        return all(v in text for v in vals)
    return ext[0] in text and ext[1] in text


def run(ctx):
    def check_from(i, sub, ty, T, v, cname):
        out = observe(env.from_data, v, T)
        sc = shape_class(ty, v)
        if sc == 'unspec':
            ctx.count('unspecified_tag_kind')
            return None
        wit = {'type': describe(ty), 'value': short(v, 300), 'carrier': cname, 'shape': sc, 'pane': out.brief()}
        if out.kind == 'escape':
            ctx.violation('tagged-dispatch', sub, i, wit, mech=f"escape:{type(out.exc).__name__}")
            return None
        if sc == 'known-tag':
            tag, body = model.tagged_extract(ty, v)
            vi = model.tagged_variant(ty, tag)
            vty = ty.a[vi]
            V = py_class(vty)
            alone = observe(env.from_data, body, V)
            ctx.count('known_tag_checked')
            others = [j for j, m in enumerate(ty.a) if j != vi and observe(env.from_data, body, py_class(m)).kind == 'value']
            if others:
                ctx.count('other_variant_would_accept')
            ctx.case((str(ty.x['external']), cname, sc, out.kind, vi, bool(others)),
                     sample={'layout': str(ty.x['external']), 'value': short(v, 150), 'variant': vi, 'others_accepting_body': others, 'pane': out.brief()[:120]})
            wit.update(chosen_variant=vi, variant_alone=alone.brief(), other_variants_accepting_body=others)
            if alone.kind == 'escape':
                return None
            if alone.kind != out.kind:
                ctx.violation('variant-chosen-by-tag-alone', sub, i, wit, mech='outcome-differs-from-variant-alone')
                return None
            if out.kind == 'value':
                if type(out.val) is not V or not deep_typed_eq(alone.val, out.val)[0]:
                    ctx.violation('variant-chosen-by-tag-alone', sub, i, wit, mech='wrong-variant-or-value')
                    return None
                try:
                    tv = getattr(out.val, ty.x['tag'])
                    if not (tv == tag):
                        ctx.violation('variant-chosen-by-tag-alone', sub, i, {**wit, 'instance_tag': repr(tv)}, mech='instance-tag-differs-from-data-tag')
                        return None
                except AttributeError:
                    pass
                return out.val
            ok, why = c07.tree_eq(alone.exc.tree, out.exc.tree)
            if not ok:
                wit['why'] = why
                ctx.violation('body-error-reported-for-chosen-variant-only', sub, i, wit, mech='tree-differs-from-variant-alone')
            return None
        # tag absent / layout wrong / non-mapping / unknown / ill-kinded
        ctx.count('bad_tag_checked')
        ctx.case((str(ty.x['external']), cname, sc, out.kind),
                 sample={'layout': str(ty.x['external']), 'value': short(v, 150), 'shape': sc, 'pane': out.brief()[:150]})
        if out.kind == 'value':
            ctx.violation('bad-tag-is-ConvertError', sub, i, wit, mech=f"accepted:{sc}")
            return None
        if sc != 'non-mapping':
            text = str(out.exc)
            ex = model.tagged_extract(ty, v)
            if not names_the_tag(ty, text, ex):
                wit['text'] = short(text, 300)
                ctx.violation('bad-tag-error-names-the-tag', sub, i, wit, mech=f"tag-not-named:{sc}")
        return None

    def check_into(i, sub, ty, T, x):
        tagname, ext = ty.x['tag'], ty.x['external']
        vi = next((j for j, m in enumerate(ty.a) if type(x) is py_class(m)), None)
        if vi is None:
            return
        V = py_class(ty.a[vi])
        tagval = ty.a[vi].x['spec'].tagval
        if type(getattr(x, tagname, tagval)) is not type(tagval):
            ctx.count('unspecified_tag_kind')   # Literal[2] took 2.0 / True from the body: literal-equal-other-kind
            return
        d = observe(env.into_data, x, T)
        own = observe(env.into_data, x, V)
        ctx.count('serialise_checked')
        wit = {'type': describe(ty), 'typed': short(x, 200), 'into_data': d.brief(), 'variant_own_data': own.brief()}
        if d.kind != 'value' or own.kind != 'value':
            ctx.violation('serialisation-writes-the-layout', sub, i, wit, mech='into_data-raised')
            return
        if ext is False:
            # the variant's own mapping, with the tag readable under the tag's name (added beside a renamed tag field)
            rest = {k_: v_ for k_, v_ in d.val.items() if k_ != tagname} if model.is_map(d.val) else d.val
            good = (deep_typed_eq(own.val, d.val)[0] or deep_typed_eq(own.val, rest)[0]) and \
                (not model.is_map(d.val) or (tagname in d.val and d.val[tagname] == tagval and type(d.val[tagname]) is type(tagval)))
        elif ext is True:
            good = model.is_map(d.val) and len(d.val) == 1 and tagval in d.val and deep_typed_eq(own.val, d.val[tagval])[0] \
                and type(next(iter(d.val))) is type(tagval)
        else:
            good = model.is_map(d.val) and set(d.val) == set(ext) and d.val[ext[0]] == tagval and type(d.val[ext[0]]) is type(tagval) \
                and deep_typed_eq(own.val, d.val[ext[1]])[0]
        if not good:
            ctx.violation('serialisation-writes-the-layout', sub, i, wit, mech=f"layout-not-written:{ext}")
            return
        # the writers given `ty=` write that layout too (a Converter used directly, io.write_json / write_yaml to a stream)
        from .. import entrypoints
        if not entrypoints.check_output_agreement(ctx, 'serialisation-writes-the-layout', sub, i, T, x, d.val, describe(ty)):
            return
        S = ty.a[vi].x['spec']
        if S.opt('out_format') not in S.opt('in_format') or any(S.is_kw(f) and f.init and not f.exclude for f in S.fields if f.name != '_KW_ONLY_') and S.opt('out_format') == 'tuple':
            return   # C05's scope / known findings, not a layout matter
        if any(f.exclude or not f.init for f in S.fields):
            return
        from . import c05
        if not c05.in_scope(ty.a[vi]):
            return   # the variant's output names are not among its input names: no read-back promised (C05's scope)
        back = observe(env.from_data, d.val, T)
        if back.kind != 'value' or not deep_typed_eq(x, back.val)[0]:
            ctx.violation('serialisation-reads-back', sub, i, {**wit, 'reparsed': back.brief()}, mech='layout-roundtrip')

    def body(i, rng, ty, T):
        if rng.random() < 0.25:
            # the same tagged union under one more annotation that changes nothing (an always-true condition): dispatch and,
            # above all, the layout WRITTEN must not change
            from .. import conds as C
            T = t.Annotated[T, C.build_cond({'op': 'user', 'fn': 'always'})]
            ctx.count('condition_wrapped_unions')
        base = [genval.tagged_member(ty, rng, variant=j % len(ty.a)) for j in range(len(ty.a) + 1)]
        vals = [(b, 'member') for b in base]
        for b in base[:2]:
            vals.extend((m, 'layout-mutation') for m in genval.tagged_layout_mutations(ty, b, rng))
            # tag inside the body disagreeing with the outer tag (external / adjacent)
            if ty.x['external'] is not False:
                ex = model.tagged_extract(ty, b)
                if ex and isinstance(ex[1], dict):
                    other = ty.a[(model.tagged_variant(ty, ex[0]) or 0) - 1].x['spec'].tagval
                    body2 = {**ex[1], ty.x['tag']: other}
                    vals.append(({ex[0]: body2} if ty.x['external'] is True else {ty.x['external'][0]: ex[0], ty.x['external'][1]: body2}, 'inner-tag-disagrees'))
            vals.append((genval.mutate(b, rng), 'random-mutation'))
        vals.extend([(5, 'non-mapping'), ('v1', 'non-mapping'), ([('tag', 'v1')], 'non-mapping'), (None, 'non-mapping')])
        for v, origin in vals:
            carriers = genval.MAP_CARRIERS if isinstance(v, dict) else (('n/a', lambda z: z),)
            for cname, carrier in (rng.sample(carriers, 2) if len(carriers) > 2 else carriers):
                x = check_from(i, 'main', ty, T, carrier(v), cname)
                if x is not None:
                    check_into(i, 'main', ty, T, x)

    def gen(ctx_, rng):
        # a third of the unions have variants with rename styles / aliases / explicit names (the tag field is renamed with the rest)
        return gentypes.gen_tagged(rng, 1, overlap=rng.random() < 0.6, naming=rng.random() < 0.35)

    drive.for_each_case(ctx, 'main', ctx.budget, body, gen=gen)

    # duplicate tag values are refused when the type is built, before any data
    def body_dup(i, rng, ty, T):
        a, b = ty.a[0], ty.a[1]
        b.x['spec'].tagval = a.x['spec'].tagval
        for f in b.x['spec'].fields:
            if f.name == ty.x['tag']:
                f.ty = Ty('lit', vals=(a.x['spec'].tagval,))
                f.dval = a.x['spec'].tagval
        b._obj = None
        T2, err = build_type(ty)
        if err is not None:
            return
        out = observe(env.make_converter, T2)
        ctx.case(('duplicate-tags', str(ty.x['external']), out.kind))
        if out.kind == 'value' or not isinstance(out.exc, TypeError):
            ctx.violation('duplicate-tags-refused', 'dup', i, {'type': describe(ty), 'make_converter': out.brief()}, mech='duplicate-tags-accepted')
        else:
            ctx.count('duplicate_tag_types_refused')
        # the same union as the type of a dataclass field: refused when the class, or at the latest its converter, is BUILT
        def holder():
            H = type(f"KDupHolder{i}", (env.PaneBase,), {'__annotations__': {'f': T2, 'n': int}, 'n': 0, '__module__': __name__})
            return env.make_converter(H)
        out2 = observe(holder)
        if out2.kind == 'value' or not isinstance(out2.exc, TypeError):
            ctx.violation('duplicate-tags-refused', 'dup', i, {'type': 'class with a field of type ' + describe(ty), 'class statement + make_converter': out2.brief()},
                          mech='duplicate-tags-accepted:as-field-type')
        else:
            ctx.count('duplicate_tag_types_refused')

    drive.for_each_case(ctx, 'dup', max(20, ctx.budget // 5), body_dup,
                        gen=lambda c, r: gentypes.gen_tagged(r, 0))

    # a duplicate that arises by inheritance: a subclass of a variant inherits its tag value; listing both is a duplicate too
    def body_dup_inherited(i, rng, ty, T):
        from pane.annotations import Tagged
        tagv = rng.choice(('shape', 1, True, 'v1'))
        Base = type(f"DB{i}", (env.PaneBase,), {'__annotations__': {'kind': t.Literal[tagv], 'a': int}, 'kind': tagv, 'a': 0, '__module__': __name__})
        Other = type(f"DO{i}", (env.PaneBase,), {'__annotations__': {'kind': t.Literal['other'], 'b': int}, 'kind': 'other', 'b': 0, '__module__': __name__})
        Sub = type(f"DS{i}", (Base,), {'__annotations__': {'r': float}, 'r': 1.0, '__module__': __name__})
        ext = rng.choice((False, True, ('t', 'c')))
        for order in ((Base, Other, Sub), (Sub, Other, Base), (Base, Sub)):
            U = t.Annotated[t.Union[order], Tagged('kind', ext)]
            if t.get_args(t.get_args(U)[0]) != tuple(order):
                continue
            out = observe(env.make_converter, U)
            ctx.case(('duplicate-tags-inherited', str(ext), out.kind))
            if out.kind == 'value' or not isinstance(out.exc, TypeError):
                ctx.violation('duplicate-tags-refused', 'dup-inherited', i, {'variants': [c.__name__ for c in order], 'tag': repr(tagv), 'layout': str(ext),
                                                                             'make_converter': out.brief()}, mech='duplicate-tags-accepted:inherited-tag')
                return
            ctx.count('duplicate_tag_types_refused')

    drive.for_each_case(ctx, 'dup-inherited', max(20, ctx.budget // 10), body_dup_inherited, gen=lambda c, r: Ty('int'))

    # tags that are EQUAL without being of one kind (1 / True / 1.0, a str- or int-mixin enum member and its plain value) are one tag
    # to the dispatch table (and to the data, which cannot tell them apart): refused like any other duplicate
    def body_dup_cross_kind(i, rng, ty, T):
        import enum as _enum

        class KS(str, _enum.Enum):
            b = 'b'

        class KI(int, _enum.Enum):
            one = 1
        a, b = rng.choice(((1, True), (0, False), (1, 1.0), (True, 1.0), (KS.b, 'b'), (KI.one, 1), (KI.one, True), (2, 2.0), (0, -0.0)))
        if rng.random() < 0.5:
            a, b = b, a
        ext = rng.choice((False, True, ('t', 'c')))

        def mk(tag, other):
            return type(f"CK{next(_serial)}", (env.PaneBase,), {'__annotations__': {'kind': t.Literal[tag], other: int}, 'kind': tag, other: 0, '__module__': __name__})
        third = mk('zz', 'w') if rng.random() < 0.5 else None
        variants = [mk(a, 'x')] + ([third] if third and rng.random() < 0.5 else []) + [mk(b, 'y')] + ([third] if third else [])
        variants = list(dict.fromkeys(variants))
        U = t.Annotated[t.Union[tuple(variants)], env.m_annotations.Tagged('kind', external=ext)]
        out = observe(env.make_converter, U)
        ctx.case(('duplicate-tags-cross-kind', type(a).__name__, type(b).__name__, str(ext), out.kind))
        if out.kind == 'value' or not isinstance(out.exc, TypeError):
            ctx.violation('duplicate-tags-refused', 'dup-cross-kind', i, {'tags': [repr(a), repr(b)], 'layout': str(ext), 'make_converter': out.brief()},
                          mech='duplicate-tags-accepted:equal-tags-of-different-kinds')
        else:
            ctx.count('duplicate_tag_types_refused')
            ctx.count('cross_kind_duplicate_tags_refused')

    drive.for_each_case(ctx, 'dup-cross-kind', max(20, ctx.budget // 10), body_dup_cross_kind, gen=lambda c, r: Ty('int'))

    # variants that are more than a bare class: a subscripted generic dataclass (Box[int]) and a dataclass under a condition.
    # The tag picks the variant; the body is then judged by THAT member as written (type argument, condition), in every layout.
    def body_rich_variants(i, rng, ty, T):
        import types as _types
        from pane.annotations import Tagged, Condition
        TV = t.TypeVar('TV')
        Box = _types.new_class(f"RBox{i}", (env.PaneBase, t.Generic[TV]), {}, lambda ns: ns.update({
            '__annotations__': {'x': TV, 'kind': t.Literal['box']}, 'kind': 'box', '__module__': __name__}))
        Circle = type(f"RCircle{i}", (env.PaneBase,), {'__annotations__': {'r': float, 'kind': t.Literal['circle']}, 'kind': 'circle', '__module__': __name__})
        Other = type(f"ROther{i}", (env.PaneBase,), {'__annotations__': {'kind': t.Literal['other'], 'y': int}, 'kind': 'other', 'y': 0, '__module__': __name__})
        arg = rng.choice((int, str, t.List[int]))
        good_x, bad_x = {int: (5, 'five'), str: ('s', 5), t.List[int]: ([1], ['a'])}[arg]
        positive = Condition(lambda c: c.r > 0, 'positive radius')
        members = [Box[arg], t.Annotated[Circle, positive], Other]
        rng.shuffle(members)
        ext = rng.choice((False, True, ('t', 'c')))
        U = t.Annotated[t.Union[tuple(members)], Tagged('kind', ext)]

        def lay(tag, body):
            if ext is False: return {'kind': tag, **body}
            if ext is True: return {tag: body}
            return {ext[0]: tag, ext[1]: body}
        rows = [('box', {'x': good_x}, True), ('box', {'x': bad_x}, False), ('circle', {'r': 2.0}, True), ('circle', {'r': -1.0}, False),
                ('circle', {'r': 0}, False), ('other', {'y': 3}, True), ('other', {'y': 'x'}, False), ('box', {}, False)]
        for tag, body, ok in rows:
            out = observe(env.from_data, lay(tag, body), U)
            ctx.count('rich_variant_rows')
            ctx.case(('rich-variants', str(ext), tag, ok, out.kind), nontrivial=True)
            wit = {'members': short(members, 300), 'layout': str(ext), 'data': short(lay(tag, body)), 'expected_accept': ok, 'outcome': out.brief()}
            if out.kind == 'escape' or (out.kind == 'value') != ok:
                ctx.violation('variant-chosen-by-tag-alone', 'rich', i, wit, mech='variant-member-not-enforced-as-written' if out.kind == 'value' else 'variant-member-refused')
                return
            if ok:
                back = observe(env.into_data, out.val, U)
                re_ = observe(env.from_data, back.val, U) if back.kind == 'value' else back
                if re_.kind != 'value' or not (re_.val == out.val):
                    ctx.violation('serialisation-reads-back', 'rich', i, {**wit, 'into_data': back.brief(), 'reparsed': re_.brief()}, mech='rich-variant-roundtrip')
                    return

    drive.for_each_case(ctx, 'rich', max(20, ctx.budget // 10), body_rich_variants, gen=lambda c, r: Ty('int'))

    # a variant that subclasses another variant (its own tag, more fields), and tagged unions as container elements: the value's TAG
    # picks the converter on the way out too, and an element is written exactly as the union alone writes it
    def body_variant_family(i, rng, ty, T):
        from pane.annotations import Tagged
        Shape = type(f"FShape{i}", (env.PaneBase,), {'__annotations__': {'name': str, 'kind': t.Literal['shape']}, 'kind': 'shape', '__module__': __name__})
        Circle = type(f"FCircle{i}", (Shape,), {'__annotations__': {'kind': t.Literal['circle'], 'radius': float}, 'kind': 'circle', 'radius': 1.0, '__module__': __name__})
        Other = type(f"FOther{i}", (env.PaneBase,), {'__annotations__': {'kind': t.Literal['other'], 'y': int}, 'kind': 'other', 'y': 0, '__module__': __name__})
        members = [Shape, Circle, Other]
        rng.shuffle(members)
        ext = rng.choice((False, True, ('t', 'c')))
        U = t.Annotated[t.Union[tuple(members)], Tagged('kind', ext)]
        if tuple(t.get_args(t.get_args(U)[0])) != tuple(members):
            return
        values = [Circle('c', radius=2.5), Shape('s'), Other(y=3)]
        for x in values:
            d = observe(env.into_data, x, U)
            own = observe(env.into_data, x, type(x))
            ctx.count('variant_family_rows')
            ctx.case(('variant-family', str(ext), type(x).__name__[:6], d.kind), nontrivial=True)
            wit = {'members': [m.__name__ for m in members], 'layout': str(ext), 'typed': short(x), 'into_data': d.brief(), 'its_own_class_writes': own.brief()}
            if d.kind != 'value' or own.kind != 'value':
                ctx.violation('serialisation-writes-the-layout', 'family', i, wit, mech='into_data-raised')
                return
            body = d.val if ext is False else (d.val.get(x.kind) if ext is True else d.val.get(ext[1]))
            if not deep_typed_eq(own.val, body)[0]:
                ctx.violation('serialisation-writes-the-layout', 'family', i, wit, mech='variant-written-by-another-variants-converter')
                return
            back = observe(env.from_data, d.val, U)
            if back.kind != 'value' or type(back.val) is not type(x) or not (back.val == x):
                ctx.violation('serialisation-reads-back', 'family', i, {**wit, 'reparsed': back.brief()}, mech='variant-family-roundtrip')
                return
            # as an element of containers: written exactly as alone
            for cname, CT, cv, pick in (('list', t.List[U], [x], lambda r: r[0]), ('dict', t.Dict[str, U], {'k': x}, lambda r: r['k']),
                                        ('mapping', t.Mapping[str, U], {'k': x}, lambda r: r['k']), ('tuple', t.Tuple[U, int], (x, 1), lambda r: r[0])):
                cd = observe(env.into_data, cv, CT)
                ctx.count('tagged_in_container_rows')
                if cd.kind != 'value' or not deep_typed_eq(d.val, pick(cd.val))[0]:
                    ctx.violation('serialisation-writes-the-layout', 'family', i, {**wit, 'container': cname, 'container_into_data': cd.brief()},
                                  mech=f"layout-lost-inside-{cname}")
                    return
                cb = observe(env.from_data, cd.val, CT)
                if cb.kind != 'value' or not (pick(cb.val) == x):
                    ctx.violation('serialisation-reads-back', 'family', i, {**wit, 'container': cname, 'reparsed': cb.brief()}, mech=f"container-roundtrip-{cname}")
                    return

    drive.for_each_case(ctx, 'family', max(20, ctx.budget // 10), body_variant_family, gen=lambda c, r: Ty('int'))

    # class-attribute style variants (as in the repository's tests): int / float / dict subclasses carrying `tag`
    def body_attr(i, rng, ty, T):
        V1 = type('AV1', (int,), {'tag': 3})
        V2 = type('AV2', (float,), {'tag': 4})
        V3 = type('AV3', (dict,), {'tag': 'three'})
        from pane.annotations import Tagged
        for ext in (True, ('t', 'c')):
            U = t.Annotated[t.Union[V1, V2, V3], Tagged('tag', ext)]
            for tagv, bodyv, cls in ((3, 4, V1), (4, 4.5, V2), (4, 4, V2), ('three', {'a': 1}, V3), (3, 'x', None), (5, 4, None), ([3], 4, None), (None, 1, None)):
                try:
                    v = {tagv: bodyv} if ext is True else {'t': tagv, 'c': bodyv}
                except TypeError:
                    continue
                out = observe(env.from_data, v, U)
                ctx.count('class_attr_style_checked')
                ctx.case(('attr-style', str(ext), repr(tagv), out.kind))
                if out.kind == 'escape' or (cls is None) != (out.kind != 'value') or (cls is not None and type(out.val) is not cls):
                    ctx.violation('tagged-dispatch', 'attr', i, {'layout': str(ext), 'value': short(v), 'expected_class': getattr(cls, '__name__', None), 'pane': out.brief()},
                                  mech='attr-style-dispatch')
                elif cls is not None:
                    d = observe(env.into_data, out.val, U)
                    if d.kind != 'value' or not deep_typed_eq(dict(v) if cls is not V2 else ({tagv: float(bodyv)} if ext is True else {'t': tagv, 'c': float(bodyv)}), d.val)[0]:
                        ctx.violation('serialisation-writes-the-layout', 'attr', i, {'layout': str(ext), 'value': short(v), 'into_data': d.brief()}, mech='attr-style-layout')

    drive.for_each_case(ctx, 'attr', 3, body_attr, gen=lambda c, r: Ty('int'))
