"""C08 — error messages are total (rendering never raises), deterministic and complete."""
import os
import re

from .. import env, genval, gentypes, drive, model
from ..common import observe
from ..ctx import short
from ..tyast import Ty, describe, skeleton
from .. import conds as C
from . import c07

PLAN = {
    'quick': {'shards': 16, 'budget': 1500},
    'thorough': {'shards': 64, 'budget': 20000, 'timeout': 7200},
}
LEVEL = 'exploration'
TECHNIQUE = "runtime monitoring: every error tree produced by the workloads is rendered under an oracle that walks the tree independently and requires the named tokens in the text, in nesting order; re-rendering and a second identical conversion must give identical text"
RULE = ("error trees are the reachable ones: produced by failed conversions of near-members (1-4 faults), dataclass inputs with "
        "duplicate/unknown(mixed-kind)/absent keys, raising predicates, stdlib constructors that raise, raising __post_init__; "
        "oracle: str() returns, twice the same, same as the text of a second identical conversion, and contains every path "
        "component in nesting order, every leaf's expectation, every missing/extra/duplicate name, the offending value of every "
        "leaf outside a sum (and one recovered value per sum), the bounds of length errors and every line of the message of every cause. "
        "distinct = (tree shape signature)")
ASSUMPTIONS = ["only presence and order of the required tokens is asserted, not wording or layout",
               "the expectation strings of intermediate product nodes fused into a dotted path are not required (the statement asks for every leaf's)"]
ANCHORS = ['errors:WrongTypeError.print_error', 'errors:WrongLenError.print_error', 'errors:ConditionFailedError.print_error',
           'errors:DuplicateKeyError.print_error', 'errors:ProductErrorNode.print_error', 'errors:SumErrorNode.print_error',
           'errors:ErrorNode.__str__', 'errors:ConvertError.__str__']
MIN_COUNTERS = {'quick': {'trees_rendered': 25000, 'fused_chains': 1500, 'nested_sums': 150, 'causes_checked': 1500,
                          'missing_names': 2000, 'extra_names': 2000, 'duplicate_nodes': 500, 'wronglen_nodes': 300,
                          'mixed_kind_extras': 100, 'unprintable_value_messages': 20, 'hash_seed_renderings': 6, 'fused_chain_cases': 300}}

E = env.m_errors


def shape(node, depth=0):
    if depth > 6:
        return '_'
    if isinstance(node, E.ProductErrorNode):
        return f"P{len(node.missing)}m{len(node.extra)}x(" + ','.join(shape(c, depth + 1) for c in node.children.values()) + ")"
    if isinstance(node, E.SumErrorNode):
        return "S(" + ','.join(shape(c, depth + 1) for c in node.children) + ")"
    return type(node).__name__[0] + ('c' if getattr(node, 'cause', None) is not None else '')


def cause_lines(tbexc):
    """Every line of 'ExcType: message' (a message may have several lines: a validator listing its complaints, a nested ConvertError)."""
    try:
        return [ln.strip() for chunk in tbexc.format_exception_only() for ln in chunk.splitlines() if ln.strip()]
    except Exception:
        return []


def required(ctx, node, text, path=(), in_sum=False, problems=None):
    """Walk the tree; append to `problems` every required token that is absent from `text`."""
    problems = [] if problems is None else problems

    def need(token, what):
        if token is not None and str(token) not in text:
            problems.append(f"{what}: {short(str(token), 100)!r} missing (path {'.'.join(map(str, path)) or '$'})")

    if isinstance(node, E.ProductErrorNode):
        fused = len(node.children) == 1 and not node.missing and not node.extra and isinstance(next(iter(node.children.values())), E.ProductErrorNode)
        if fused:
            ctx.count('fused_chains')
        for name in node.missing:
            ctx.count('missing_names')
            need(name if isinstance(name, str) else '/'.join(name), 'missing field')
        for name in node.extra:
            ctx.count('extra_names')
            need(name, 'unexpected field')
        if len({type(x) for x in node.extra}) > 1:
            ctx.count('mixed_kind_extras')
        for key, child in node.children.items():
            required(ctx, child, text, path + (key,), False, problems)
        return problems
    if isinstance(node, E.SumErrorNode):
        flat = []
        for c in node.children:
            if isinstance(c, E.SumErrorNode):
                ctx.count('nested_sums')
                flat.extend(c.children)
            else:
                flat.append(c)
        actuals = [getattr(c, 'actual', None) for c in flat if hasattr(c, 'actual')]
        if actuals and not any(str(a) in text for a in actuals):
            problems.append(f"sum: none of the alternatives' offending values is shown (path {'.'.join(map(str, path)) or '$'})")
        for c in flat:
            required(ctx, c, text, path, True, problems)
        return problems
    # leaves
    if path:
        pat = '.*'.join(re.escape(str(p)) for p in path)
        if re.search(pat, text, re.S) is None:
            problems.append(f"path components {list(map(str, path))} do not occur in nesting order")
    if isinstance(node, E.DuplicateKeyError):
        ctx.count('duplicate_nodes')
        need(node.key, 'duplicate key')
        for a in node.aliases:
            need(a, 'alias of duplicate key')
        return problems
    need(node.expected, 'expectation of leaf')
    if not in_sum:
        need(str(node.actual), 'offending value')
    if isinstance(node, E.WrongLenError):
        ctx.count('wronglen_nodes')
        need(node.expected_len[0], 'length lower bound')
        need(node.expected_len[1], 'length upper bound')
        if not in_sum:
            need(node.actual_len, 'actual length')
    if getattr(node, 'cause', None) is not None:
        ctx.count('causes_checked')
        for ln in cause_lines(node.cause):
            need(ln, 'message of the underlying exception')
    if isinstance(node, E.ConditionFailedError) and node.cause is None:
        need(node.condition, 'name of failed condition')
    return problems


import datetime
import decimal
import fractions

# (type, offending value, the raw operation that fails underneath) - the message of that exception must be in the text
CAUSE_TYPES = (
    lambda: (Ty('fraction'), '1/0', lambda: fractions.Fraction('1/0')),
    lambda: (Ty('decimal'), 'x', lambda: decimal.Decimal('x')),
    lambda: (Ty('date'), '2023-13-45', lambda: datetime.date.fromisoformat('2023-13-45')),
    lambda: (Ty('pattern', of='str'), '(', lambda: re.compile('(')),
    # (not every failure of the pattern compiler is an re.error)
    lambda: (Ty('pattern', of='str'), 'a{4294967296}', lambda: re.compile('a{4294967296}')),
    lambda: (Ty('pattern', of='bytes'), b'(?P<n>a)(?P<n>b)', lambda: re.compile(b'(?P<n>a)(?P<n>b)')),
    lambda: (Ty('decimal'), 'NaN1x', lambda: decimal.Decimal('NaN1x')),
    lambda: (Ty('time'), '25:00', lambda: datetime.time.fromisoformat('25:00')),
    lambda: (Ty('float'), 10 ** 400, lambda: float(10 ** 400)),
    lambda: (Ty('cond', [Ty('int')], conds=[C.with_names({'op': 'user', 'fn': 'boom'})]), 5, lambda: C.USER_FNS['boom'](5)),
    lambda: (Ty('cond', [Ty('int')], conds=[C.with_names({'op': 'user', 'fn': 'keyerr'})]), 5, lambda: C.USER_FNS['keyerr'](5)),
    lambda: (Ty('cond', [Ty('str')], conds=[C.with_names({'op': 'positive'})]), 'abc', lambda: 'abc' > 0),
    lambda: (Ty('cond', [Ty('int')], conds=[C.with_names({'op': 'finite'})]), 10 ** 400, lambda: __import__('math').isfinite(10 ** 400)),
    lambda: (Ty('set', [Ty('list', [Ty('int')])], res='set'), [[1], [2]], lambda: {[1]}),
    lambda: (Ty('dict', [Ty('list', [Ty('str')]), Ty('int')]), {('a',): 1}, lambda: {['a']: 1}),
)


def underlying_message(op):
    import traceback
    try:
        op()
    except Exception as e:
        return traceback.format_exception_only(type(e), e)[-1].strip()
    return None


def run(ctx):
    def render_check(i, sub, ty, T, v, out):
        tree = out.exc.tree
        ctx.count('trees_rendered')
        ctx.case(shape(tree), sample={'type': describe(ty)[:160], 'value': short(v, 120), 'shape': shape(tree)})
        wit = {'type': describe(ty), 'value': short(v, 300), 'tree': short(tree, 500)}
        r1 = observe(str, out.exc)
        if r1.kind != 'value' or not isinstance(r1.val, str):
            ctx.violation('rendering-never-raises', sub, i, {**wit, 'str(e)': r1.brief()}, mech=f"render-raised:{type(r1.exc).__name__ if r1.exc else 'non-str'}")
            return
        r2 = observe(str, out.exc.tree)
        if r2.kind != 'value' or r2.val != r1.val:
            ctx.violation('rendering-deterministic', sub, i, {**wit, 'first': short(r1.val, 300), 'second': r2.brief()}, mech='render-twice-differs')
            return
        again = observe(env.from_data, v, T)
        if again.kind == 'converr':
            r3 = observe(str, again.exc)
            if r3.kind != 'value' or r3.val != r1.val:
                ctx.violation('rendering-deterministic', sub, i, {**wit, 'first': short(r1.val, 300), 'second_conversion': r3.brief()[:300]},
                              mech='second-conversion-renders-differently')
                return
        problems = required(ctx, tree, r1.val)
        if problems:
            ctx.violation('message-complete', sub, i, {**wit, 'text': short(r1.val, 700), 'problems': problems[:4]},
                          mech='missing-token:' + problems[0].split(':')[0])

    def body(i, rng, ty, T):
        for j in range(4):
            v = genval.member(ty, rng)
            v = genval.mutate(v, rng, n=rng.choice((1, 1, 2, 3, 4)))
            out = observe(env.from_data, v, T)
            if out.kind == 'converr':
                render_check(i, 'main', ty, T, v, out)
            elif out.kind == 'escape':
                no_text(i, 'main', ty, v, out)
        if ty.k == 'tagged':
            # absent / unknown / ill-kinded tags: the message lists the tags that would have been accepted, whatever their kinds
            for v in genval.tagged_layout_mutations(ty, genval.tagged_member(ty, rng), rng):
                out = observe(env.from_data, v, T)
                ctx.count('bad_tag_messages')
                if out.kind == 'converr':
                    render_check(i, 'main', ty, T, v, out)
                elif out.kind == 'escape':
                    no_text(i, 'main', ty, v, out)

    def no_text(i, sub, ty, v, out):
        # a rejected value with no error text at all: the conversion died while composing its own message
        ctx.violation('rendering-total', sub, i, {'type': describe(ty), 'value': short(v, 300), 'outcome': out.brief()},
                      mech=f"no-error-text:{type(out.exc).__name__}")

    def gen_main(ctx_, rng):
        if rng.random() < 0.15:
            return gentypes.gen_tagged(rng, 1)
        return gentypes.gen_type(rng, rng.choice((1, 2, 2, 3)))

    drive.for_each_case(ctx, 'main', ctx.budget, body, gen=gen_main)

    # chains of product nodes that the renderer fuses into one dotted path ('mid.inner.x'): three and more levels, with a node in the
    # MIDDLE of the chain that also has a missing or an unexpected field of its own - nothing may get lost in the fusing
    def body_fuse_chain(i, rng, ty_unused, T_unused):
        F, CM = gentypes.FieldM, gentypes.ClassM
        n = rng.randrange(10 ** 6)
        inner = Ty('dc', spec=CM(f"KFI{n}", [F('x_val', Ty('int'))], {}))
        mid_opts = rng.choice(({}, {'allow_extra': False}))
        mid = Ty('dc', spec=CM(f"KFM{n}", [F('inner_val', inner), F('width', Ty('int')), F('note', Ty('str'), 'val', 'n')], mid_opts))
        wrap = rng.choice(('field', 'list', 'dict', 'field-in-field'))
        if wrap == 'field':
            top = Ty('dc', spec=CM(f"KFO{n}", [F('mid_one', mid)], {}))
            place = lambda m: {'mid_one': m}
        elif wrap == 'list':
            top, place = Ty('list', [mid]), (lambda m: [m])
        elif wrap == 'dict':
            top, place = Ty('dict', [Ty('str'), mid]), (lambda m: {'k': m})
        else:
            outer = Ty('dc', spec=CM(f"KFO{n}", [F('mid_one', mid)], {}))
            top = Ty('dc', spec=CM(f"KFT{n}", [F('outer_one', outer)], {}))
            place = lambda m: {'outer_one': {'mid_one': m}}
        Ttop, err = build_type(top)
        if err is not None:
            return
        fault = rng.choice(('missing-in-the-middle', 'extra-in-the-middle', 'both'))
        m = {'inner_val': {'x_val': 'bad'}}
        if fault in ('extra-in-the-middle', 'both'):
            m['zz_unknown'] = 1
        if fault == 'extra-in-the-middle':
            m['width'] = 2
        v = place(m)
        out = observe(env.from_data, v, Ttop)
        ctx.count('fused_chain_cases')
        ctx.case(('fuse-chain', wrap, fault, out.kind), nontrivial=True)
        if out.kind == 'converr':
            render_check(i, 'fuse-chain', top, Ttop, v, out)
            text = observe(str, out.exc)
            want = (["Missing required field"] if fault != 'extra-in-the-middle' else []) + (["Unexpected field"] if fault != 'missing-in-the-middle' else []) + ['x_val']
            if text.kind == 'value' and not all(w in text.val for w in want):
                ctx.violation('message-complete', 'fuse-chain', i, {'type': describe(top), 'value': short(v, 200), 'text': short(text.val, 600), 'must_mention': want},
                              mech='missing-token:fused-chain-drops-a-middle-node')
        elif out.kind == 'escape':
            no_text(i, 'fuse-chain', top, v, out)

    from ..common import build_type
    drive.for_each_case(ctx, 'fuse-chain', 40, body_fuse_chain, gen=lambda c, r: Ty('int'))

    # deterministic also from one run of the program to the next: the same failed conversions rendered by fresh interpreters under
    # different string-hash seeds (missing / unexpected fields are kept in sets) give the same text
    if ctx.shard == 0:
        import subprocess as _sp
        import sys as _sys
        script = (
            "import typing as t, pane\n"
            "class Inner(pane.PaneBase):\n    alpha: int\n    beta_two: int\n    gamma: int\n    delta_four: int\n    epsilon: int = 0\n"
            "class Outer(pane.PaneBase):\n    first_one: int\n    second: Inner\n    third: t.List[Inner]\n    fourth: int\n    fifth_field: int\n"
            "cases = [(Outer, {'zz': 1, 'yy': 2, 'xx': 3, 'ww': 4, 'second': {'q1': 1, 'q2': 2, 'q3': 3}, 'third': [{'alpha': 1, 'k1': 1, 'k2': 2}]}),\n"
            "         (Inner, {'extra_one': 1, 'extra_two': 2, 'extra_three': 3, 'extra_four': 4, 'extra_five': 5}),\n"
            "         ({'aa': int, 'bb': int, 'cc': int, 'dd': int}, {'x1': 1, 'x2': 2, 'x3': 3}),\n"
            "         (t.Dict[str, Inner], {'k': {'u1': 1, 'u2': 2, 'u3': 3}})]\n"
            "for T, v in cases:\n"
            "    try:\n        pane.from_data(v, T); print('ACCEPTED')\n"
            "    except pane.errors.ConvertError as e:\n        print(str(e)); print('=====')\n")
        texts = {}
        for hs in ('0', '1', '2', '3', '4', '5'):
            r = _sp.run([_sys.executable, '-B', '-c', script], env={**os.environ, 'PYTHONHASHSEED': hs, 'PYTHONPATH': env.PANE_REPO}, capture_output=True, text=True, timeout=120)
            texts[hs] = r.stdout if r.returncode == 0 else f"<exit {r.returncode}> {r.stderr[-300:]}"
            ctx.count('hash_seed_renderings')
        distinct = sorted(set(texts.values()))
        ctx.case(('hash-seeds', len(distinct)), nontrivial=True)
        if len(distinct) != 1 or 'Missing required field' not in distinct[0] or 'Unexpected field' not in distinct[0]:
            a, b = distinct[0], distinct[-1]
            from ..common import _first_difference
            ctx.violation('rendering-deterministic', 'hash-seeds', 0, {'interpreters': 'six fresh ones, PYTHONHASHSEED 0..5', 'distinct_texts': len(distinct),
                                                                      'first_difference': _first_difference(a, b) if len(distinct) > 1 else None, 'text': short(a, 400)},
                          mech='text-depends-on-the-string-hash-seed' if len(distinct) > 1 else 'hash-seed-script-did-not-render')

    # refused values that cannot be printed (an int too long for str()): the text is still there, twice the same, and names the path
    if ctx.shard == 0:
        from .. import special
        for j, (label, TT, vv) in enumerate(special.unprintable_cases()):
            try:
                out = observe(env.from_data, vv, TT)
                ctx.count('unprintable_value_messages')
                wit = {'type': short(TT, 100), 'value': 'an int with more digits than str() will print, as ' + label}
                if out.kind != 'converr':
                    ctx.violation('rendering-total', 'unprintable', j, {**wit, 'outcome': out.brief()[:300]}, mech=f"no-error-text:{type(out.exc).__name__ if out.kind == 'escape' else 'accepted'}")
                    continue
                r1, r2 = observe(str, out.exc), observe(str, out.exc.tree)
                if r1.kind != 'value' or r2.kind != 'value' or r1.val != r2.val or not r1.val.startswith('Expected'):
                    ctx.violation('rendering-never-raises', 'unprintable', j, {**wit, 'str(e)': r1.brief()[:300], 'str(e.tree)': r2.brief()[:300]},
                                  mech=f"render-raised:{type(r1.exc).__name__ if r1.kind == 'escape' else ('differs' if r1.kind == 'value' else r1.kind)}")
            except Exception as e:
                ctx.crash('unprintable', j, e)

    # the message of a failing document stream names the position of every failing document, exactly as List[T] does for the same data
    def body_yaml_all(i, rng, ty, T):
        import io as _io
        import yaml as _yaml
        import typing as _t
        from ..entrypoints import jsonable, _only_plain_carriers
        docs = []
        for _ in range(rng.randint(2, 4)):
            v = genval.mutate(genval.member(ty, rng), rng, n=rng.choice((1, 2)))
            if _only_plain_carriers(v) and jsonable(v):
                docs.append(v)
        if len(docs) < 2:
            return
        text = _yaml.safe_dump_all(docs, sort_keys=False, explicit_start=True)
        if list(_yaml.safe_load_all(text)) != docs:
            return
        ref = observe(lambda: env.m_converters.SequenceConverter(list, T).convert(docs))
        got = observe(env.m_io.from_yaml_all, _io.StringIO(text), T)
        if ref.kind != 'converr':
            return
        ctx.count('yaml_all_messages')
        rt, gt = observe(str, ref.exc), observe(str, got.exc) if got.kind == 'converr' else got
        if got.kind != 'converr' or gt.kind != 'value' or rt.val != gt.val:
            ctx.violation('required-tokens', 'yaml_all', i, {'type': describe(ty), 'documents': short(docs, 300), 'message_for_List[T]': short(rt.val, 400),
                                                             'message_of_from_yaml_all': gt.brief() if got.kind == 'converr' else got.brief()},
                          mech='from_yaml_all:message-differs-from-List[T]')

    drive.for_each_case(ctx, 'yaml_all', max(40, ctx.budget // 5), body_yaml_all, gen=gen_main)

    def body_dc(i, rng, ty, T):
        for j in range(4):
            d, faults = c07.faulty_dc_value(ty, rng)
            if d is None:
                continue
            out = observe(env.from_data, d, T)
            if out.kind == 'converr':
                render_check(i, 'dcfaults', ty, T, d, out)
                # duplicated fields computed from the naming model, independently of the tree
                S = ty.x['spec']
                amap = {}
                for f in S.ordered_fields():
                    if f.init:
                        for n in model.in_names(S, f)[0]:
                            amap.setdefault(n, f.name)
                seen, dups = set(), []
                for kk in d:
                    try:
                        fname = amap.get(kk)
                    except TypeError:
                        continue
                    if fname is not None:
                        if fname in seen:
                            dups.append(kk)
                        seen.add(fname)
                text = observe(str, out.exc)
                # data keys whose value the field's own type rejects: the failing path component is the key as given
                for kk in list(c07.LAST_BAD_KEYS):
                    fname = None
                    try:
                        fname = amap.get(kk)
                    except TypeError:
                        pass
                    if fname is None or kk not in d:
                        continue
                    fty = next(f.ty for f in S.ordered_fields() if f.name == fname)
                    if c07.tree_of(fty, d[kk]) in (None, 'escape'):
                        continue
                    ctx.count('independent_bad_value_keys')
                    if text.kind == 'value' and re.search(r'(?<![\w-])' + re.escape(str(kk)) + r'(?![\w-])', text.val) is None:
                        ctx.violation('message-names-failing-path', 'dcfaults', i,
                                      {'type': describe(ty), 'value': short(d, 300), 'key_with_rejected_value': kk, 'text': short(text.val, 600)},
                                      mech='failing-key-absent')
                for kk in dups:
                    ctx.count('independent_duplicates')
                    if text.kind == 'value' and re.search(r'(?<![\w-])' + re.escape(str(kk)) + r'(?![\w-])', text.val) is None:
                        ctx.violation('message-names-duplicated-field', 'dcfaults', i,
                                      {'type': describe(ty), 'value': short(d, 300), 'duplicate_key': kk, 'text': short(text.val, 600)},
                                      mech='duplicate-key-absent')

    drive.for_each_case(ctx, 'dcfaults', ctx.budget // 2, body_dc, gen=c07.gen_dc)

    # causes: failures produced by an underlying exception, alone and nested under products / sums
    def gen_cause(ctx_, rng):
        leaf, bad, op = rng.choice(CAUSE_TYPES)()
        wrap = rng.choice(('top', 'list', 'dict', 'field', 'union', 'deep', 'postinit'))
        gen_cause.bad = bad
        gen_cause.msg = underlying_message(op) if wrap != 'postinit' else None
        gen_cause.wrap = wrap
        if wrap == 'list': return Ty('list', [leaf])
        if wrap == 'dict': return Ty('dict', [Ty('str'), leaf])
        if wrap == 'field': return c07.Ty('dc', spec=gentypes.ClassM(f"KC{rng.randrange(10**6)}", [gentypes.FieldM('inner_val', leaf)], {}))
        if wrap == 'union': return Ty('union', [Ty('none'), leaf, Ty('list', [leaf])])
        if wrap == 'deep': return Ty('list', [Ty('dict', [Ty('str'), Ty('tup', [Ty('int'), leaf])])])
        if wrap == 'postinit':
            return Ty('dc', spec=gentypes.ClassM(f"KC{rng.randrange(10**6)}", [gentypes.FieldM('inner_val', Ty('int'))], {'in_format': ('struct', 'tuple')}, post_init='raise'))
        return leaf

    def body_cause(i, rng, ty, T):
        bad, wrap = gen_cause.bad, gen_cause.wrap
        v = {'top': bad, 'list': [bad], 'dict': {'k': bad}, 'field': {'inner_val': bad}, 'union': bad,
             'deep': [{'a': [1, bad]}], 'postinit': rng.choice(({'inner_val': 1}, [1]))}[wrap]
        out = observe(env.from_data, v, T)
        if out.kind == 'converr':
            render_check(i, 'causes', ty, T, v, out)
            msg = gen_cause.msg
            if msg is not None:
                ctx.count('independent_cause_messages')
                text = observe(str, out.exc)
                if text.kind == 'value' and msg not in text.val:
                    ctx.violation('message-includes-underlying-exception', 'causes', i,
                                  {'type': describe(ty), 'value': short(v, 200), 'underlying': msg, 'text': short(text.val, 600)},
                                  mech='cause-message-absent')
        else:
            ctx.count('cause_case_not_rejected')

    drive.for_each_case(ctx, 'causes', max(50, ctx.budget // 2), body_cause, gen=gen_cause)
