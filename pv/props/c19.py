"""C19 — JSON / YAML file round trip and stream ownership."""
import builtins
import collections.abc
import io
import json
import os
import pathlib
import tempfile
import typing as t

import yaml

from .. import env, genval, gentypes, drive, deepeq
from ..common import observe, plain_data
from ..ctx import short
from ..deepeq import deep_typed_eq
from ..tyast import Ty, describe, skeleton
from . import c05

PLAN = {
    'quick': {'shards': 16, 'budget': 500},
    'thorough': {'shards': 64, 'budget': 5000, 'timeout': 7200},
}
SHARD_ENV = {'LC_ALL': 'C', 'LANG': 'C', 'PYTHONUTF8': '0', 'PYTHONIOENCODING': 'ascii'}
LEVEL = 'exploration'
TECHNIQUE = "runtime monitoring: pane.io's open() is shadowed by a tracking wrapper and caller streams are instrumented, so every file life-cycle event is observed; round trips are judged only for values whose interchange image the json/yaml libraries themselves round-trip under the same options"
RULE = ("typed values of JSON/YAML-friendly generated types (non-ASCII, astral, control characters, multi-line, YAML look-alike "
        "strings, empty containers, dataclasses with defaults) x sink/source kind {str path, Path, StringIO, real text file object "
        "opened by the caller in utf-8 / latin-1, returned string} x formatting options (JSON indent/sort_keys; YAML indent, width, "
        "allow_unicode, explicit_start/end, default_style, default_flow_style, sort_keys) x module functions and dataclass "
        "methods; multi-document YAML with 0..4 documents incl. null documents; shards run under LC_ALL=C PYTHONUTF8=0. "
        "distinct = (format, sink kind, option signature, type skeleton)")
ASSUMPTIONS = ["the json and yaml libraries are trusted: a case is only a round-trip case when they round-trip its interchange image under the same options",
               "disk-full / permission faults are not injected (the statement does not speak of them)"]
ANCHORS = ['io:from_json', 'io:from_yaml', 'io:from_yaml_all', 'io:write_json', 'io:write_yaml', 'io:open_file', 'io:_validate_file',
           'classes:PaneBase.write_json', 'classes:PaneBase.write_yaml', 'classes:PaneBase.from_json', 'classes:PaneBase.from_yaml',
           'classes:PaneBase.from_yaml_all', 'classes:PaneBase.from_jsons', 'classes:PaneBase.from_yamls']
MIN_COUNTERS = {'quick': {'round_trips': 8000, 'paths_opened_by_pane': 2500, 'caller_streams_checked': 3000, 'yaml_all_checked': 600,
                          'returned_strings_checked': 300, 'non_ascii_payloads': 1200, 'failed_reads_checked': 300, 'offset_streams_checked': 300, 'foreign_encoding_streams_checked': 200, 'wrapper_streams_checked': 150, 'subclass_key_documents': 100, 'custom_sequence_reads': 100}}

ALLOW = ('int', 'float', 'str', 'bool', 'none', 'list', 'seq', 'dict', 'tup', 'union', 'dc', 'enum', 'lit', 'fraction', 'decimal',
         'date', 'time', 'datetime', 'path', 'deque', 'sub', 'cc', 'set', 'bytes')
STRINGS = ('héllo wörld', '日本語テキスト', '𝒳 astral 🎉', 'tab\there', 'line one\nline two\n', ' leading and trailing ', 'yes', 'no', '~', 'null',
           '1e3', '2023-01-01', '0x10', '- a', 'k: v', '#notacomment', '', "quote's \"double\"", 'bell\x07', 'é' * 30, '@at', '%pct', '|', '>', '!tag', '&a', '*a', 'caf\udce9.txt', '\ud83c half a pair')

OPENED = []          # (file, mode, encoding, file object) for every open() made by pane.io
_real_open = builtins.open


def tracking_open(file, mode='r', *a, **kw):
    f = _real_open(file, mode, *a, **kw)
    OPENED.append((str(file), mode, kw.get('encoding'), f))
    return f


def jsonable(d):
    if d is None or isinstance(d, (bool, int, float, str)): return True
    if isinstance(d, collections.abc.Mapping): return all(isinstance(k, str) and jsonable(v) for k, v in d.items())
    if isinstance(d, (list, tuple)): return all(jsonable(v) for v in d)
    return False


def _lone_surrogate(s_):
    return any(0xD800 <= ord(c) <= 0xDFFF for c in s_)


def yamlable(d):
    # (a lone surrogate - a file name decoded with surrogateescape - has a JSON spelling, "\\udce9", but none that libyaml will emit)
    if isinstance(d, str): return not _lone_surrogate(d)
    if d is None or isinstance(d, (bool, int, float, str, bytes)): return True
    if isinstance(d, collections.abc.Mapping): return all(isinstance(k, (str, int, bool, float, type(None))) and yamlable(k) and yamlable(v) for k, v in d.items())
    if isinstance(d, (list, tuple)): return all(yamlable(v) for v in d)
    return False


def listify(d):
    if isinstance(d, collections.abc.Mapping): return {k: listify(v) for k, v in d.items()}
    if isinstance(d, (list, tuple)): return [listify(v) for v in d]
    return d


def json_opts(rng):
    return {'indent': rng.choice((None, 0, 2, '\t')), 'sort_keys': rng.random() < 0.4}


def yaml_opts(rng):
    o = {}
    if rng.random() < 0.4: o['indent'] = rng.choice((2, 4, 7))
    if rng.random() < 0.4: o['width'] = rng.choice((10, 1000, 40))
    if rng.random() < 0.5: o['allow_unicode'] = rng.random() < 0.5
    if rng.random() < 0.4: o['explicit_start'] = rng.random() < 0.5
    if rng.random() < 0.3: o['explicit_end'] = rng.random() < 0.5
    if rng.random() < 0.3: o['default_style'] = rng.choice(('"', '|', '>', None))
    if rng.random() < 0.4: o['default_flow_style'] = rng.choice((None, True, False))
    if rng.random() < 0.3: o['sort_keys'] = True
    return o


def lib_roundtrips(fmt, d, opts):
    """Do the json / yaml libraries themselves round-trip this interchange image under these options?"""
    try:
        if fmt == 'json':
            return deep_typed_eq(listify(d), json.loads(json.dumps(d, **opts)))[0]
        y = {'allow_unicode': True, 'explicit_start': True, **opts}
        text = yaml.dump(d, Dumper=yaml.SafeDumper, **y)
        return deep_typed_eq(listify(d), yaml.load(text, yaml.SafeLoader))[0]
    except Exception:
        return False


def spice(v, rng, depth=0):
    """Replace some string leaves of a member value by hostile strings."""
    if isinstance(v, str) and rng.random() < 0.5:
        return rng.choice(STRINGS)
    if isinstance(v, list) and depth < 6:
        return [spice(x, rng, depth + 1) for x in v]
    if isinstance(v, dict) and depth < 6:
        return {k: spice(x, rng, depth + 1) for k, x in v.items()}
    return v


def has_non_ascii(d):
    try:
        json.dumps(d, ensure_ascii=False).encode('ascii')
        return False
    except Exception:
        return True


def run(ctx):
    deepeq.SKIP_EXCLUDED = True
    gentypes.INIT_FALSE_IMPLIES_EXCLUDE = True
    gentypes.NO_ANY_IN_UNIONS = True
    genval.SMALL_INTS_ONLY = False
    env.m_io.open = tracking_open          # shadows the builtin inside pane.io only
    tmp = tempfile.TemporaryDirectory(prefix='pv-c19-')
    tdir = pathlib.Path(tmp.name)
    counter = [0]

    def fresh(ext):
        counter[0] += 1
        return tdir / f"f{counter[0]}.{ext}"

    def check_opened(i, sub, what, expect_n=1):
        """Every file pane.io opened: utf-8, and closed when the call has returned (or raised)."""
        ok = True
        for (name, mode, enc, f) in OPENED:
            ctx.count('paths_opened_by_pane')
            if (enc or '').lower().replace('_', '-') not in ('utf-8', 'utf8') or not f.closed:
                ctx.violation('paths-opened-utf8-and-closed', sub, i, {'call': what, 'file': name, 'mode': mode, 'encoding': enc, 'closed_after_call': f.closed},
                              mech='path-not-utf8' if f.closed else 'path-left-open')
                ok = False
                if not f.closed:
                    f.close()
        n = len(OPENED)
        del OPENED[:]
        if n != expect_n:
            ctx.violation('paths-opened-utf8-and-closed', sub, i, {'call': what, 'files_opened_by_pane': n, 'expected': expect_n}, mech='unexpected-open-count')
            ok = False
        return ok

    def write(fmt, x, sink, T, opts, method):
        if method:
            return observe(getattr(x, f"write_{fmt}"), sink, **opts) if sink is not None else observe(getattr(x, f"write_{fmt}"), **opts)
        return observe(getattr(env.m_io, f"write_{fmt}"), x, sink, ty=T, **opts)

    def read(fmt, src, T, method):
        if method:
            return observe(getattr(T, f"from_{fmt}"), src)
        return observe(getattr(env.m_io, f"from_{fmt}"), src, T)

    def body(i, rng, ty, T):
        if not c05.in_scope(ty) or gentypes._has_any(ty):
            ctx.count('out_of_scope_types')
            return
        ordered = c05.contains(ty, lambda n: n.k == 'dict' and n.x.get('res') == 'OrderedDict')
        for j in range(3):
            v = spice(genval.member(ty, rng), rng)
            o = observe(env.from_data, v, T)
            if o.kind != 'value':
                continue
            x = o.val
            rt = c05.roundtrip(T, x, ty)
            if rt is not None and rt[0] != 'not-interchange':    # (data that is not pure interchange is exactly what a dumper may refuse: go on)
                ctx.count('in_memory_round_trip_fails_skipped')
                continue
            d = env.into_data(x, T)
            for fmt in ('json', 'yaml'):
                opts = json_opts(rng) if fmt == 'json' else yaml_opts(rng)
                if ordered:
                    opts.pop('sort_keys', None)     # sorting keys legitimately reorders an OrderedDict
                # representable or not is asked of the data's plain image (a `class MyStr(str)` left in it is still the string the
                # document will hold): if pane itself leaves something the dumper refuses, that is a failed write, not an excuse
                dp = plain_data(d)
                if not (jsonable(dp) if fmt == 'json' else yamlable(dp)) or not lib_roundtrips(fmt, dp, opts):
                    ctx.count(f"not_{fmt}_representable")
                    continue
                if has_non_ascii(d):
                    ctx.count('non_ascii_payloads')
                method = ty.k == 'dc' and rng.random() < 0.5
                sink_kind = rng.choice(('str-path', 'Path', 'StringIO', 'file-utf8', 'file-latin1', 'file-default') + (('returned-string',) if method else ()))
                osig = tuple(sorted((k, str(v_)) for k, v_ in opts.items()))
                ctx.case((fmt, sink_kind, osig, skeleton(ty, 2)),
                         sample={'format': fmt, 'sink': sink_kind, 'options': opts, 'type': describe(ty)[:150], 'value': short(x, 120)})
                wit = {'format': fmt, 'sink': sink_kind, 'options': opts, 'method': method, 'type': describe(ty), 'value': short(x, 300)}
                del OPENED[:]
                text = None
                path = fresh(fmt)
                # ---------------- write ----------------
                if sink_kind in ('str-path', 'Path'):
                    w = write(fmt, x, str(path) if sink_kind == 'str-path' else path, T, opts, method)
                    if w.kind != 'value':
                        ctx.violation('write', 'main', i, {**wit, 'write': w.brief()}, mech=f"write-{fmt}-raised:{sink_kind}")
                        del OPENED[:]
                        continue
                    if not check_opened(i, 'main', f"write_{fmt}({sink_kind})"):
                        continue
                    try:
                        text = path.read_bytes().decode('utf-8')
                    except UnicodeDecodeError as e:
                        ctx.violation('paths-opened-utf8-and-closed', 'main', i, {**wit, 'error': str(e)}, mech='file-not-utf8-bytes')
                        continue
                elif sink_kind == 'StringIO':
                    sio = io.StringIO()
                    w = write(fmt, x, sio, T, opts, method)
                    ctx.count('caller_streams_checked')
                    if w.kind != 'value' or sio.closed or sio.tell() != len(sio.getvalue()):
                        ctx.violation('caller-stream-left-open', 'main', i, {**wit, 'write': w.brief(), 'closed': sio.closed}, mech='StringIO-closed-or-failed')
                        continue
                    sio.write('')   # still usable
                    text = sio.getvalue()
                    check_opened(i, 'main', f"write_{fmt}(StringIO)", 0)
                elif sink_kind.startswith('file-'):
                    enc = {'file-utf8': 'utf-8', 'file-latin1': 'latin-1', 'file-default': None}[sink_kind]
                    f = _real_open(path, 'w', encoding=enc)
                    w = write(fmt, x, f, T, opts, method)
                    ctx.count('caller_streams_checked')
                    usable = observe(lambda: (f.write(''), f.flush()))
                    if w.kind != 'value' or f.closed or usable.kind != 'value':
                        ctx.violation('caller-stream-left-open', 'main', i, {**wit, 'write': w.brief(), 'closed': f.closed, 'still_usable': usable.brief()},
                                      mech='caller-file-closed-or-failed')
                        if not f.closed:
                            f.close()
                        continue
                    # a second write to the same stream must still work (stream ownership stays with the caller)
                    if fmt == 'yaml':
                        w2 = write(fmt, x, f, T, {**opts, 'explicit_start': True}, method)
                        if w2.kind != 'value' or f.closed:
                            ctx.violation('caller-stream-left-open', 'main', i, {**wit, 'second_write': w2.brief(), 'closed': f.closed}, mech='caller-file-unusable-after-first-write')
                            if not f.closed:
                                f.close()
                            continue
                    f.close()
                    check_opened(i, 'main', f"write_{fmt}(file object)", 0)
                    try:
                        text = path.read_bytes().decode('utf-8')
                    except UnicodeDecodeError:
                        text = None      # the caller chose another encoding and pane may legitimately keep it
                    if fmt == 'yaml':
                        text = None      # two documents: read back below via from_yaml_all
                        docs = observe(env.m_io.from_yaml_all, path, T)
                        ctx.count('yaml_all_checked')
                        if docs.kind == 'value' and not (len(docs.val) == 2 and all(deep_typed_eq(x, y)[0] for y in docs.val)):
                            ctx.violation('round-trip', 'main', i, {**wit, 'from_yaml_all': short(docs.val, 300)}, mech='two-writes-to-one-stream')
                        elif docs.kind != 'value' and enc == 'utf-8':
                            ctx.violation('round-trip', 'main', i, {**wit, 'from_yaml_all': docs.brief()}, mech='two-writes-to-one-stream')
                        del OPENED[:]
                        continue
                else:   # returned string
                    w = write(fmt, x, None, T, opts, True)
                    ctx.count('returned_strings_checked')
                    sio = io.StringIO()
                    w_ref = write(fmt, x, sio, T, opts, True)
                    if w.kind != 'value' or not isinstance(w.val, str) or w_ref.kind != 'value' or w.val != sio.getvalue():
                        ctx.violation('returned-string-equals-stream-output', 'main', i, {**wit, 'returned': w.brief()[:300], 'stream': short(sio.getvalue(), 300)},
                                      mech='returned-string-differs')
                        continue
                    text = w.val
                if text is None:
                    continue
                # ---------------- read back through every source kind ----------------
                src_kind = rng.choice(('str-path', 'Path', 'StringIO', 'file', 'string-method') if ty.k == 'dc' else ('str-path', 'Path', 'StringIO', 'file'))
                rpath = fresh(fmt)
                rpath.write_bytes(text.encode('utf-8'))
                del OPENED[:]
                rmethod = ty.k == 'dc' and rng.random() < 0.5
                if src_kind in ('str-path', 'Path'):
                    r = read(fmt, str(rpath) if src_kind == 'str-path' else rpath, T, rmethod)
                    check_opened(i, 'main', f"from_{fmt}({src_kind})")
                elif src_kind == 'StringIO':
                    sio = io.StringIO(text)
                    r = read(fmt, sio, T, rmethod)
                    ctx.count('caller_streams_checked')
                    if sio.closed:
                        ctx.violation('caller-stream-left-open', 'main', i, {**wit, 'source': src_kind}, mech='source-StringIO-closed')
                        continue
                elif src_kind == 'file':
                    f = _real_open(rpath, 'r', encoding='utf-8')
                    r = read(fmt, f, T, rmethod)
                    ctx.count('caller_streams_checked')
                    if f.closed:
                        ctx.violation('caller-stream-left-open', 'main', i, {**wit, 'source': src_kind}, mech='source-file-closed')
                        continue
                    f.close()
                else:
                    r = observe(getattr(T, f"from_{fmt}s"), text)
                ctx.count('round_trips')
                if r.kind != 'value' or not deep_typed_eq(x, r.val)[0]:
                    ctx.violation('round-trip', 'main', i, {**wit, 'source': src_kind, 'text': short(text, 400), 'read_back': r.brief()}, mech=f"{fmt}-round-trip")
                # ---------------- a failing read still closes the file it opened ----------------
                if rng.random() < 0.15:
                    bad = fresh(fmt)
                    bad.write_bytes((json.dumps({'definitely': ['not', 'that', 'type']}) if fmt == 'json' else 'definitely: [not, that, type]\n').encode())
                    del OPENED[:]
                    rb = read(fmt, bad, T, False)
                    ctx.count('failed_reads_checked')
                    if rb.kind == 'converr':
                        check_opened(i, 'main', f"from_{fmt}(path) raising ConvertError")
                    del OPENED[:]

    def gen(ctx_, rng):
        depth = rng.choice((1, 2, 2, 3))
        ty = gentypes.gen_type(rng, depth, lit_ok=False, allow=ALLOW)
        if ty.k != 'dc' and rng.random() < 0.4:
            ty = Ty('dc', spec=gentypes.gen_class(rng, 1, allow=ALLOW))
        return ty

    drive.for_each_case(ctx, 'main', ctx.budget, body, gen=gen, seconds=60)

    # caller-owned streams that are not at their beginning: a preamble the caller wrote first stays, the document goes where the
    # stream stands, and reading starts where the caller positioned the stream (not at offset 0)
    def body_offset(i, rng, ty, T):
        if not c05.in_scope(ty) or gentypes._has_any(ty):
            return
        v = genval.member(ty, rng)
        o = observe(env.from_data, v, T)
        if o.kind != 'value' or c05.roundtrip(T, o.val, ty) is not None:
            return
        x = o.val
        dp = plain_data(env.into_data(x, T))
        for fmt in ('json', 'yaml'):
            opts = {}
            if not (jsonable(dp) if fmt == 'json' else yamlable(dp)) or not lib_roundtrips(fmt, dp, opts):
                continue
            preamble = rng.choice(('# written by the caller\n', 'HEADER 1\nHEADER 2\n', '\n'))
            kind = rng.choice(('StringIO', 'file'))
            stream = io.StringIO() if kind == 'StringIO' else _real_open(fresh(fmt), 'w+', encoding='utf-8')
            try:
                stream.write(preamble)
                pos = stream.tell()
                method = ty.k == 'dc' and rng.random() < 0.5
                w = write(fmt, x, stream, T, opts, method)
                ctx.count('offset_streams_checked')
                ctx.count('caller_streams_checked')
                wit = {'format': fmt, 'stream': kind, 'preamble': preamble, 'type': describe(ty), 'value': short(x, 200), 'write': w.brief()}
                if w.kind != 'value' or stream.closed:
                    ctx.violation('caller-stream-left-open', 'offset', i, {**wit, 'closed': stream.closed}, mech='offset-stream-closed-or-failed')
                    continue
                stream.flush()
                stream.seek(0)
                whole = stream.read()
                if not whole.startswith(preamble) or len(whole) <= len(preamble):
                    ctx.violation('round-trip', 'offset', i, {**wit, 'stream_content': short(whole, 200)}, mech='preamble-overwritten-or-nothing-appended')
                    continue
                stream.seek(pos)
                r = read(fmt, stream, T, method)
                ctx.case(('offset', fmt, kind, r.kind), nontrivial=True)
                if r.kind != 'value' or not deep_typed_eq(x, r.val)[0] or stream.closed:
                    ctx.violation('round-trip', 'offset', i, {**wit, 'read_from_offset': r.brief(), 'closed': stream.closed}, mech='read-does-not-start-at-the-stream-position')
            finally:
                if kind == 'file' and not stream.closed:
                    stream.close()
                del OPENED[:]

    drive.for_each_case(ctx, 'offset', max(20, ctx.budget // 8), body_offset, gen=gen, seconds=30)

    # a caller's text file in ANOTHER encoding, already written to (a header comment, an existing file opened for appending), given
    # non-ASCII text: what pane writes there is read back from the path (paths are UTF-8) as the same value, and the stream stays open
    def body_encoding_offset(i, rng, ty, T):
        import typing as _t
        x = {'name': rng.choice(('h\u00e9llo', '\u65e5\u672c\u8a9e', 'stra\u00dfe \u2713', 'na\u00efve caf\u00e9')), 'k\u00e9y': '\u00df'}
        TT = _t.Dict[str, str]
        enc = rng.choice(('latin-1', 'cp1252', 'iso8859-15', 'utf-8'))
        how = rng.choice(('header', 'append', 'pristine'))
        fmt = rng.choice(('yaml', 'yaml', 'json'))
        if fmt == 'json' and how != 'pristine':
            how = 'pristine'            # (a JSON document cannot follow a preamble)
        opts = rng.choice(({}, {'allow_unicode': True}, {'allow_unicode': False})) if fmt == 'yaml' else rng.choice(({}, {'indent': 2}))
        path = fresh(fmt)
        if how == 'append':
            with _real_open(path, 'w', encoding='utf-8') as f0:
                f0.write('# existing file\n')
        stream = _real_open(path, 'a' if how == 'append' else 'w+', encoding=enc)
        try:
            if how == 'header':
                stream.write('# written by the caller\n')
            w = write(fmt, x, stream, TT, dict(opts), False)
            ctx.count('foreign_encoding_streams_checked')
            ctx.count('caller_streams_checked')
            ctx.case(('encoding-offset', fmt, enc, how, str(sorted(opts.items())), w.kind), nontrivial=True)
            wit = {'format': fmt, 'stream_encoding': enc, 'stream_state': how, 'options': opts, 'value': short(x, 120), 'write': w.brief()[:200]}
            if w.kind != 'value' or stream.closed:
                ctx.violation('caller-stream-left-open', 'encoding-offset', i, {**wit, 'closed': stream.closed}, mech='foreign-encoding-stream-closed-or-failed')
                return
            stream.close()
            del OPENED[:]
            r = read(fmt, path, TT, False)
            if r.kind != 'value' or r.val != x:
                ctx.violation('round-trip', 'encoding-offset', i, {**wit, 'read_back_from_the_path': r.brief()[:300]}, mech='caller-stream-not-written-as-utf8')
        finally:
            if not stream.closed:
                stream.close()
            del OPENED[:]

    drive.for_each_case(ctx, 'encoding-offset', 40, body_encoding_offset, gen=lambda c, r: Ty('int'), seconds=30)

    # open streams that are not io.IOBase instances (tempfile.NamedTemporaryFile returns a delegating wrapper, codecs.open a
    # StreamReaderWriter): they are the caller's streams all the same - written to, read from, left open, never taken for a path
    def body_wrapper_streams(i, rng, ty, T):
        import codecs as _codecs
        import tempfile as _tempfile
        import typing as _t
        x = {'name': rng.choice(('plain', 'h\u00e9llo', '\u65e5\u672c')), 'n': str(rng.randrange(100))}
        TT = _t.Dict[str, str]
        fmt = rng.choice(('json', 'yaml'))
        kind = rng.choice(('NamedTemporaryFile', 'codecs.open', 'TemporaryFile'))
        if kind == 'NamedTemporaryFile':
            stream = _tempfile.NamedTemporaryFile('w+', encoding='utf-8', dir=str(fresh(fmt).parent), suffix='.' + fmt)
        elif kind == 'codecs.open':
            stream = _codecs.open(str(fresh(fmt)), 'w+', encoding='utf-8')
        else:
            stream = _tempfile.TemporaryFile('w+', encoding='utf-8', dir=str(fresh(fmt).parent))
        try:
            w = write(fmt, x, stream, TT, {}, False)
            ctx.count('wrapper_streams_checked')
            ctx.count('caller_streams_checked')
            ctx.case(('wrapper-streams', fmt, kind, w.kind), nontrivial=True)
            wit = {'format': fmt, 'stream': kind, 'value': short(x, 100), 'write': w.brief()[:200]}
            if w.kind != 'value' or stream.closed:
                ctx.violation('caller-stream-left-open', 'wrapper-streams', i, {**wit, 'closed': stream.closed}, mech=f"wrapper-stream-refused-or-closed:{kind}")
                return
            stream.flush()
            stream.seek(0)
            r = read(fmt, stream, TT, False)
            if r.kind != 'value' or r.val != x or stream.closed:
                ctx.violation('round-trip', 'wrapper-streams', i, {**wit, 'read_back': r.brief()[:200], 'closed': stream.closed}, mech=f"wrapper-stream-read-failed:{kind}")
        finally:
            try:
                stream.close()
            except Exception:
                pass
            del OPENED[:]

    drive.for_each_case(ctx, 'wrapper-streams', 30, body_wrapper_streams, gen=lambda c, r: Ty('int'), seconds=30)

    # keys of untyped mappings that are instances of str SUBCLASSES (a `class Name(str)`, a member of a str-mixin enum): written as the
    # plain strings they are (a dumper refuses such objects), like values of those classes; the document reads back as plain data
    def body_subclass_keys(i, rng, ty, T):
        import enum as _enum
        import typing as _t

        class Name(str):
            pass

        class Colour(str, _enum.Enum):
            RED = 'red'
        key = rng.choice((Name('alpha'), Colour.RED, Name('h\u00e9llo')))
        x = {key: 1, 'plain': 2}
        TT = rng.choice((dict, _t.Dict[_t.Any, int], _t.Dict[_t.Any, _t.Any], _t.Any, _t.Mapping))
        fmt = rng.choice(('yaml', 'json'))
        plain_key = key.value if isinstance(key, _enum.Enum) else str(key)
        path = fresh(fmt)
        del OPENED[:]
        w = observe(getattr(env.m_io, f"write_{fmt}"), x, path, ty=TT)
        ctx.count('subclass_key_documents')
        ctx.case(('subclass-keys', fmt, str(TT)[:24], type(key).__name__, w.kind), nontrivial=True)
        wit = {'format': fmt, 'type': short(TT, 60), 'value': short(x), 'write': w.brief()[:200]}
        if w.kind != 'value':
            ctx.violation('write', 'subclass-keys', i, wit, mech=f"write-{fmt}-raised:str-subclass-key")
            del OPENED[:]
            return
        r = observe(getattr(env.m_io, f"from_{fmt}"), path, _t.Dict[str, int])
        del OPENED[:]
        if r.kind != 'value' or r.val != {plain_key: 1, 'plain': 2} or any(type(k_) is not str for k_ in r.val):
            ctx.violation('round-trip', 'subclass-keys', i, {**wit, 'read_back': r.brief()[:200]}, mech='str-subclass-key-not-written-as-plain-text')

    drive.for_each_case(ctx, 'subclass-keys', 20, body_subclass_keys, gen=lambda c, r: Ty('int'), seconds=30)

    # ---- multi-document YAML: one converted value per document -------------------------------------------------------------
    def body_all(i, rng, ty, T):
        if gentypes._has_any(ty) or not c05.in_scope(ty):
            return
        if ty.k == 'union':
            opt_ty = ty if any(m.k == 'none' for m in ty.a) else Ty('union', list(ty.a) + [Ty('none')])
        else:
            opt_ty = Ty('union', [ty, Ty('none')]) if ty.k != 'none' else ty
        from ..common import build_type
        OT, err = build_type(opt_ty)
        if err is not None:
            return
        docs, typed = [], []
        for _ in range(rng.choice((0, 1, 2, 3, 4))):
            if rng.random() < 0.25:
                o = observe(env.from_data, None, OT)
                if o.kind == 'value':
                    docs.append(None)
                    typed.append(o.val)     # usually None (an enum member valued None may claim it first)
                continue
            v = spice(genval.member(ty, rng), rng)
            o = observe(env.from_data, v, T)
            if o.kind != 'value' or c05.roundtrip(T, o.val, ty) is not None:
                continue
            d = env.into_data(o.val, T)
            if not yamlable(plain_data(d)) or not lib_roundtrips('yaml', plain_data(d), {}):
                continue
            docs.append(d)
            typed.append(o.val)
        text = yaml.dump_all(docs, Dumper=yaml.SafeDumper, allow_unicode=rng.random() < 0.5, explicit_start=True, sort_keys=False)
        p = fresh('yaml')
        p.write_bytes(text.encode('utf-8'))
        del OPENED[:]
        src = rng.choice(('path', 'StringIO'))
        use_method = ty.k == 'dc' and not any(d is None for d in docs) and rng.random() < 0.5
        target = T if use_method else OT
        r = observe(T.from_yaml_all, p if src == 'path' else io.StringIO(text)) if use_method else \
            observe(env.m_io.from_yaml_all, p if src == 'path' else io.StringIO(text), OT)
        ctx.count('yaml_all_checked')
        ctx.case(('yaml_all', len(docs), sum(1 for d in docs if d is None), src, skeleton(ty, 2)))
        if src == 'path':
            check_opened(i, 'yaml_all', 'from_yaml_all(path)')
        good = r.kind == 'value' and isinstance(r.val, list) and len(r.val) == len(docs) and all(deep_typed_eq(a, b)[0] for a, b in zip(typed, r.val))
        if not good:
            ctx.violation('one-value-per-document', 'yaml_all', i, {'type': describe(opt_ty), 'documents': short(docs, 300), 'text': short(text, 300), 'result': r.brief()},
                          mech='from_yaml_all-count-or-values')

    drive.for_each_case(ctx, 'yaml_all', max(40, ctx.budget // 3), body_all, gen=gen, seconds=60)

    # from_yaml_all with types that are not hashable (struct / tuple type literals) and with unions that compare equal in two member
    # orders (same-shaped dataclasses): one converted value per document, by THIS call's type
    def body_all_types(i, rng, ty, T):
        A = type(f"YA{counter[0]}_{i}", (env.PaneBase,), {'__annotations__': {'x': int, 'y': int}, 'y': 0, '__module__': __name__})
        B = type(f"YB{counter[0]}_{i}", (env.PaneBase,), {'__annotations__': {'x': int, 'y': int}, 'y': 0, '__module__': __name__})
        cases = [({'a': int, 'b': str}, [{'a': 1, 'b': 'x'}, {'a': 2, 'b': 'y'}], lambda r: r == [{'a': 1, 'b': 'x'}, {'a': 2, 'b': 'y'}]),
                 ((int, str), [[1, 'x']], lambda r: r == [(1, 'x')] and type(r[0]) is tuple),
                 ({'k': t.List[int]}, [], lambda r: r == []),
                 (t.Union[A, B], [{'x': 1}, {'x': 2, 'y': 3}], lambda r: [type(z) for z in r] == [A, A] and r[1].y == 3),
                 (t.Union[B, A], [{'x': 1}], lambda r: [type(z) for z in r] == [B]),
                 (t.Union[int, float], [1, 2.5], lambda r: r == [1, 2.5] and type(r[0]) is int),
                 (t.Union[float, int], [1], lambda r: r == [1.0] and type(r[0]) is float)]
        rng.shuffle(cases)
        for TT, docs, good in cases:
            text = yaml.dump_all(docs, Dumper=yaml.SafeDumper, explicit_start=True)
            r = observe(env.m_io.from_yaml_all, io.StringIO(text), TT)
            ctx.count('yaml_all_checked')
            ctx.count('yaml_all_special_types')
            ctx.case(('yaml_all-types', short(TT, 40), r.kind), nontrivial=True)
            ok = r.kind == 'value' and observe(good, r.val).val is True
            if not ok:
                ctx.violation('one-value-per-document', 'yaml_all', i, {'type': short(TT, 200), 'documents': short(docs, 200), 'result': r.brief()},
                              mech='from_yaml_all-by-this-calls-type')
                return

    drive.for_each_case(ctx, 'yaml_all_types', 30, body_all_types, gen=lambda c, r: Ty('int'))

    # ---- per-call custom= converters are honoured by every write/read variant ------------------------------------------------
    def body_custom(i, rng, ty, T):
        SC = env.m_converters.ScalarConverter
        conv = SC(complex, str, 'a complex as text', 'complexes as text', lambda z: f"{z.real}|{z.imag}")
        conv.ty = lambda s_: complex(*map(float, s_.split('|')))
        custom = {complex: conv}
        cls = type(f"KZ{counter[0]}", (env.PaneBase,), {'__annotations__': {'z': complex, 'name': str, 'zs': t.List[complex]}, 'zs': env.pfield(default_factory=list),
                                                         '__module__': __name__})
        x = cls.make_unchecked(complex(rng.choice((1.5, -2.0, 0.0)), rng.choice((2.0, -0.5))), rng.choice(STRINGS[:-2]), [complex(1, 1)])
        if rng.random() < 0.5:
            # a converter whose data form has the SAME Python type as the value (seconds kept as milliseconds): applying it twice on
            # the way out, or not at all on the way in, changes the number
            ms = SC(int, int, 'milliseconds', 'milliseconds', lambda secs: secs * 1000)
            ms.ty = lambda millis: millis // 1000
            custom = {int: ms}
            counter[0] += 1
            cls = type(f"KM{counter[0]}", (env.PaneBase,), {'__annotations__': {'secs': int, 'name': str, 'ss': t.List[int]}, 'ss': env.pfield(default_factory=list),
                                                             '__module__': __name__})
            x = cls.make_unchecked(rng.choice((5, 0, 86400)), rng.choice(STRINGS[:-2]), [1, 2])
            ctx.count('same_type_custom_forms')
        for fmt in ('json', 'yaml'):
            for sink_kind in ('path', 'StringIO', 'returned-string'):
                for method in (True, False):
                    if sink_kind == 'returned-string' and not method:
                        continue
                    del OPENED[:]
                    ctx.count('custom_variants_checked')
                    ctx.case(('custom', fmt, sink_kind, method))
                    path = fresh(fmt)
                    sio = io.StringIO()
                    sink = {'path': path, 'StringIO': sio, 'returned-string': None}[sink_kind]
                    if method:
                        w = observe(getattr(x, f"write_{fmt}"), sink, custom=custom) if sink is not None else observe(getattr(x, f"write_{fmt}"), custom=custom)
                    else:
                        w = observe(getattr(env.m_io, f"write_{fmt}"), x, sink, ty=cls, custom=custom)
                    wit = {'format': fmt, 'sink': sink_kind, 'method': method, 'value': short(x), 'write': w.brief()[:300]}
                    if w.kind != 'value':
                        ctx.violation('custom-converters-honoured', 'custom', i, wit, mech=f"write-{fmt}-ignores-custom:{sink_kind}")
                        continue
                    text = path.read_text(encoding='utf-8') if sink_kind == 'path' else (sio.getvalue() if sink_kind == 'StringIO' else w.val)
                    r = observe(getattr(cls, f"from_{fmt}s"), text, custom=custom) if method else \
                        observe(getattr(env.m_io, f"from_{fmt}"), io.StringIO(text), cls, custom=custom)
                    if r.kind != 'value' or not deep_typed_eq(x, r.val)[0]:
                        ctx.violation('custom-converters-honoured', 'custom', i, {**wit, 'text': short(text, 200), 'read_back': r.brief()}, mech=f"read-{fmt}-custom")
                    elif hasattr(x, 'secs'):
                        # the document itself holds the custom form, once
                        loaded = json.loads(text) if fmt == 'json' else yaml.safe_load(text)
                        if not (isinstance(loaded, dict) and loaded.get('secs') == x.secs * 1000 and loaded.get('ss') == [1000, 2000]):
                            ctx.violation('custom-converters-honoured', 'custom', i, {**wit, 'text': short(text, 200), 'expected_secs_in_document': x.secs * 1000},
                                          mech=f"write-{fmt}-custom-form-not-applied-exactly-once")
        del OPENED[:]

    drive.for_each_case(ctx, 'custom', 25, body_custom, gen=lambda c, r: Ty('int'), seconds=60)

    # ---- the SAME type read several times in one process with different per-call custom= (round 11: a reader that remembers the
    # converter of its first call per type). Every reader variant, the calls in a random order; each call must apply its own handlers.
    def body_custom_sequence(i, rng, ty, T):
        SC = env.m_converters.ScalarConverter

        def scaled(k):
            c = SC(int, int, f"units of 1/{k}", f"units of 1/{k}", lambda v, k=k: v * k)
            c.ty = lambda d, k=k: d // k
            return {int: c}
        counter[0] += 1
        cls = type(f"KQ{counter[0]}", (env.PaneBase,), {'__annotations__': {'n': int, 'ns': t.List[int]}, '__module__': __name__})
        elem = rng.choice((cls, int, t.List[int], t.Dict[str, int]))
        handlers = [('none', None, 1), ('x10', scaled(10), 10), ('x1000', scaled(1000), 1000), ('x10-again', scaled(10), 10)]
        rng.shuffle(handlers)
        readers = ['yaml_all', 'yaml', 'json'] + (['Cls.from_yaml_all'] if elem is cls else [])
        for reader in readers:
            for name, custom, k in handlers:
                base = {'n': 3, 'ns': [1, 2]} if elem is cls else (7 if elem is int else ([4, 5] if elem is t.List[int] else {'a': 6}))
                scale = (lambda d: {kk: scale(v) for kk, v in d.items()} if isinstance(d, dict) else ([scale(v) for v in d] if isinstance(d, list) else d * k))
                doc = scale(base)
                kw = {} if custom is None else {'custom': custom}
                if reader == 'yaml_all':
                    r = observe(env.m_io.from_yaml_all, io.StringIO(yaml.safe_dump_all([doc, doc])), elem, **kw)
                    expect_n = 2
                elif reader == 'Cls.from_yaml_all':
                    r = observe(cls.from_yaml_all, io.StringIO(yaml.safe_dump_all([doc, doc])), **kw)
                    expect_n = 2
                elif reader == 'yaml':
                    r = observe(env.m_io.from_yaml, io.StringIO(yaml.safe_dump(doc)), elem, **kw)
                    expect_n = None
                else:
                    r = observe(env.m_io.from_json, io.StringIO(json.dumps(doc)), elem, **kw)
                    expect_n = None
                ref = observe(env.from_data, base, elem)
                ctx.count('custom_sequence_reads')
                ctx.case(('custom-sequence', reader, name, getattr(elem, '__name__', str(elem))[:12]))
                vals = r.val if (r.kind == 'value' and expect_n) else ([r.val] if r.kind == 'value' else None)
                ok = ref.kind == 'value' and vals is not None and (expect_n is None or len(vals) == expect_n) and all(deep_typed_eq(ref.val, v)[0] for v in vals)
                if not ok:
                    ctx.violation('custom-converters-honoured', 'custom_sequence', i,
                                  {'reader': reader, 'element_type': str(elem), 'this_call_custom': name, 'order_of_calls': [h[0] for h in handlers],
                                   'document': short(doc, 120), 'expected': ref.brief(), 'read': r.brief()}, mech=f"{reader}-custom-of-an-earlier-call")
                    return

    drive.for_each_case(ctx, 'custom_sequence', 12, body_custom_sequence, gen=lambda c, r: Ty('int'), seconds=40)

    # unparameterised container types as the whole type: Sequence / Mapping / list / tuple / dict / set, typing and collections.abc
    # spellings. What from_data makes of the loaded document is the same typed image the value had (a tuple for Sequence, ...).
    def body_bare(i, rng, ty, T):
        import collections.abc as cabc
        seqs = (cabc.Sequence, t.Sequence, cabc.MutableSequence, t.MutableSequence, list, tuple, t.List, t.Tuple, collections.deque)
        maps = (cabc.Mapping, t.Mapping, cabc.MutableMapping, dict, t.Dict, collections.OrderedDict)
        sets = (set, frozenset, cabc.Set, t.FrozenSet)
        BT = rng.choice(seqs + maps + sets)
        if BT in maps:
            v = rng.choice(({'a': 1, 'b': [1, 2]}, {}, {'k': {'n': None}}, {'x': 'héllo'}))
        elif BT in sets:
            v = rng.choice(([1, 2, 3], [], ['a', 'b']))
        else:
            v = rng.choice(([1, 2, 3], [], ['a', [1, 2], {'k': 1}], [None, True, 2.5]))
        x0 = observe(env.from_data, v, BT)
        if x0.kind != 'value':
            return
        x = x0.val
        image = {cabc.Sequence: tuple, t.Sequence: tuple, cabc.MutableSequence: list, t.MutableSequence: list, list: list, tuple: tuple, t.List: list, t.Tuple: tuple,
                 collections.deque: collections.deque, cabc.Mapping: dict, t.Mapping: dict, cabc.MutableMapping: dict, dict: dict, t.Dict: dict,
                 collections.OrderedDict: collections.OrderedDict, set: set, frozenset: frozenset, cabc.Set: frozenset, t.FrozenSet: frozenset}[BT]
        if type(x) is not image:
            ctx.violation('round-trip', 'bare', i, {'type': str(BT), 'data': short(v, 150), 'from_data': x0.brief(), 'documented_image': image.__name__},
                          mech='bare-container-type-image-differs')
            return
        for fmt in ('json', 'yaml'):
            path = fresh(fmt)
            del OPENED[:]
            w = observe(getattr(env.m_io, f"write_{fmt}"), x, path, ty=BT)
            ctx.count('bare_container_round_trips')
            ctx.case(('bare', str(BT), fmt, w.kind), nontrivial=True)
            wit = {'type': str(BT), 'format': fmt, 'value': short(x, 150), 'value_type': type(x).__name__, 'write': w.brief()}
            if w.kind != 'value':
                ctx.violation('write', 'bare', i, wit, mech=f"write-{fmt}-raised:bare-container")
                continue
            check_opened(i, 'bare', f"write_{fmt}(bare)")
            r = observe(getattr(env.m_io, f"from_{fmt}"), path, BT)
            check_opened(i, 'bare', f"from_{fmt}(bare)")
            if r.kind != 'value' or not deep_typed_eq(x, r.val)[0] or type(r.val) is not type(x):
                ctx.violation('round-trip', 'bare', i, {**wit, 'read_back': r.brief(), 'read_back_type': type(r.val).__name__ if r.kind == 'value' else None},
                              mech='bare-container-type-image-differs')
        del OPENED[:]

    drive.for_each_case(ctx, 'bare', max(20, ctx.budget // 10), body_bare, gen=lambda c, r: Ty('int'), seconds=30)

    # ---- string variants of the dataclass methods over the whole formatting grid, with strings whose edges matter -----------
    def body_strings(i, rng, ty, T):
        import itertools
        cls = type(f"KS{counter[0]}_{i}", (env.PaneBase,), {'__annotations__': {'name': str, 'text': str}, '__module__': __name__})
        edge = ('ends with newline\n', 'two\n\n', ' lead', 'trail ', '\nstarts', 'tab\t', 'plain', '', ' ', '\n', 'multi\nline\n', 'x\n ')
        for a, b in ((rng.choice(edge), rng.choice(edge)) for _ in range(6)):
            x = cls(a, b)
            d = {'name': a, 'text': b}
            for style, flow, end, start in itertools.product((None, '"', '|', '>'), (None, True, False), (False, True), (True, False)):
                opts = {'default_style': style, 'default_flow_style': flow, 'explicit_end': end, 'explicit_start': start}
                if not lib_roundtrips('yaml', d, opts):
                    ctx.count('not_yaml_representable')
                    continue
                w = observe(x.write_yaml, **opts)
                ctx.count('string_variant_round_trips')
                ctx.case(('yaml-strings', str(style), str(flow), end, start))
                r = observe(cls.from_yamls, w.val) if w.kind == 'value' else w
                if w.kind != 'value' or r.kind != 'value' or not deep_typed_eq(x, r.val)[0]:
                    ctx.violation('round-trip', 'strings', i, {'format': 'yaml', 'options': opts, 'value': short(x), 'text': short(w.val if w.kind == 'value' else w.brief(), 200),
                                                               'read_back': r.brief()}, mech='yaml-string-method-round-trip')
                    return
            for indent in (None, 0, 2):
                w = observe(x.write_json, indent=indent)
                r = observe(cls.from_jsons, w.val) if w.kind == 'value' else w
                ctx.count('string_variant_round_trips')
                if w.kind != 'value' or r.kind != 'value' or not deep_typed_eq(x, r.val)[0]:
                    ctx.violation('round-trip', 'strings', i, {'format': 'json', 'indent': indent, 'value': short(x), 'read_back': r.brief()}, mech='json-string-method-round-trip')
                    return

    drive.for_each_case(ctx, 'strings', 6, body_strings, gen=lambda c, r: Ty('int'), seconds=120)
    tmp.cleanup()
