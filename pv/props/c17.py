"""C17 — inheritance and generics resolve fields, order and types correctly; options are inherited."""
import dataclasses
import inspect
import types
import typing as t

from .. import env, genval, model, drive
from ..common import observe
from ..ctx import short
from ..deepeq import deep_typed_eq, Inst
from ..tyast import Ty, _serial

PLAN = {
    'quick': {'shards': 16, 'budget': 200},
    'thorough': {'shards': 64, 'budget': 3000, 'timeout': 7200},
}
LEVEL = 'exploration'
TECHNIQUE = "runtime monitoring: generated class-hierarchy programs are executed on the real library and observed through inspect.signature, repr, conversions and option-dependent behaviour; oracles are an independent ~100-line resolver and, for parameter order/kinds/defaults, the standard library's dataclasses on a mirrored hierarchy"
RULE = ("hierarchy programs of depth 1-4: per level new fields, fields redeclared with another type/default, keyword-only via "
        "field flag / KW_ONLY marker / class option, generic parameters bound, forwarded, re-declared with explicit Generic[...] "
        "(incl. reordered) or partially bound, plain mixins, options (in_format, rename, allow_extra, frozen, kw_only, custom) "
        "set or omitted per level; observations: signature (names, kinds, defaults, annotations), repr order, tuple layout, "
        "conversion of members/near-members of the substituted field types, option-dependent behaviour of the leaf class. "
        "distinct = (per-level shape of the program)")
ASSUMPTIONS = ["hierarchies are single-inheritance chains of pane classes plus plain mixins; every generic level either binds, forwards or explicitly re-declares all free type variables"]
ANCHORS = ['classes:PaneBase.__init_subclass__', 'classes:PaneBase.__class_getitem__', 'classes:_make_subclass', 'classes:_process',
           'classes:_make_init', 'field:FieldSpec.replace_typevars', 'util:replace_typevars', 'util:get_type_hints',
           'classes:PaneOptions.replace']
MIN_COUNTERS = {'quick': {'hierarchies': 2500, 'signature_checks': 2500, 'stdlib_mirror_checks': 2000, 'generic_hierarchies': 1200,
                          'substituted_field_conversions': 8000, 'option_inheritance_checks': 2500, 'redeclared_fields': 800,
                          'custom_inherited_checks': 300, 'inner_generic_checks': 2000, 'plain_subclass_field_checks': 800, 'mixin_first_classes': 200, 'multi_base_generic_checks': 1000, 'same_name_generic_checks': 400}}

TVS = {n: t.TypeVar(n) for n in ('T', 'U', 'V', 'W')}


# ---- type expressions with variables ------------------------------------------------------------------------------------
def free_vars(e, out=None):
    out = [] if out is None else out
    if e[0] == 'tv':
        if e[1] not in out:
            out.append(e[1])
    else:
        for c in e[1:]:
            if isinstance(c, tuple):
                free_vars(c, out)
    return out


def subst(e, m):
    if e[0] == 'tv':
        return m.get(e[1], e)
    return (e[0],) + tuple(subst(c, m) if isinstance(c, tuple) else c for c in e[1:])


def to_py(e):
    k = e[0]
    if k == 'tv': return TVS[e[1]]
    if k == 'probe': return Probe
    if k == 'int': return int
    if k == 'str': return str
    if k == 'float': return float
    if k == 'bool': return bool
    if k == 'list': return t.List[to_py(e[1])]
    if k == 'dict': return t.Dict[str, to_py(e[1])]
    if k == 'opt': return t.Optional[to_py(e[1])]
    if k == 'tup': return t.Tuple[to_py(e[1]), to_py(e[2])]
    if k == 'tuplit': return (to_py(e[1]), to_py(e[2]))       # tuple-of-types shorthand
    if k == 'union': return t.Union[to_py(e[1]), to_py(e[2])]
    if k == 'unionN': return t.Union[tuple(to_py(c) for c in e[1:])]
    raise ValueError(k)


def to_ty(e):
    k = e[0]
    if k == 'tv': return Ty('any')          # an unbound variable converts as Any
    if k in ('int', 'str', 'float', 'bool'): return Ty(k)
    if k == 'list': return Ty('list', [to_ty(e[1])])
    if k == 'dict': return Ty('dict', [Ty('str'), to_ty(e[1])])
    if k == 'opt':
        inner = to_ty(e[1])
        return Ty('union', [inner, Ty('none')]) if inner.k != 'none' else inner
    if k in ('tup', 'tuplit'): return Ty('tup', [to_ty(e[1]), to_ty(e[2])])
    if k == 'union':
        a, b = to_ty(e[1]), to_ty(e[2])
        return a if (a.k == b.k and not a.a) else Ty('union', [a, b])
    if k == 'unionN':
        # a union with a type variable among order-sensitive members: after substitution the members stand in the order written,
        # a repeated member counting where it FIRST occurs (left-most accepting member wins, so later repeats are inert)
        flat = []
        for c in e[1:]:
            m = to_ty(c)
            flat.extend(m.a if m.k == 'union' else [m])
        return flat[0] if len(flat) == 1 else Ty('union', flat)
    raise ValueError(k)


def same_type(a, b):
    """Structural equality of annotations; Union members as a set (typing's alias cache does not preserve their order)."""
    if isinstance(a, tuple) or isinstance(b, tuple):
        return isinstance(a, tuple) and isinstance(b, tuple) and len(a) == len(b) and all(same_type(x, y) for x, y in zip(a, b))
    oa, ob = t.get_origin(a) or a, t.get_origin(b) or b
    if oa is not ob:
        return False
    aa, ab = t.get_args(a), t.get_args(b)
    if len(aa) != len(ab):
        return False
    if oa is t.Union:
        rest = list(ab)
        for x in aa:
            for j, y in enumerate(rest):
                if same_type(x, y):
                    del rest[j]
                    break
            else:
                return False
        return True
    return all(same_type(x, y) for x, y in zip(aa, ab))


CONCRETE = (('int',), ('str',), ('float',), ('bool',), ('list', ('int',)), ('opt', ('str',)))


def gen_expr(rng, tvs, depth=2, top=True):
    c = rng.random()
    if tvs and top and c < 0.1:
        rest = rng.choice(((('int',), ('float',)), (('float',), ('int',)), (('int',), ('float',), ('str',)), (('bool',), ('int',)), (('str',), ('int',), ('float',))))
        members = [('tv', rng.choice(tvs))] + list(rest)
        if rng.random() < 0.3:
            members = members[1:2] + members[:1] + members[2:]     # the variable in second place
        return ('unionN',) + tuple(members)
    if tvs and c < 0.45:
        return ('tv', rng.choice(tvs))
    if depth <= 0 or c < 0.6:
        return rng.choice((('int',), ('str',), ('float',)))
    k = rng.choice(('list', 'dict', 'opt', 'tup', 'union', 'list'))
    if k == 'union':
        # members that never read the same data, so their order cannot matter (typing does not preserve it reliably)
        return rng.choice((('union', ('str',), ('int',)), ('union', ('int',), ('str',)), ('union', ('str',), ('list', ('int',))),
                           ('union', ('float',), ('str',))))
    if k == 'tup':
        # the tuple-of-types shorthand is only legal as the whole annotation (typing refuses it as an argument)
        return (rng.choice(('tup', 'tup', 'tuplit')) if top else 'tup', gen_expr(rng, tvs, depth - 1, False), gen_expr(rng, tvs, depth - 1, False))
    inner = gen_expr(rng, tvs, depth - 1, False)
    if k == 'opt' and inner[0] in ('opt', 'union'):
        return ('list', inner)
    return (k, inner)


DEFAULTS = {'int': 3, 'str': 'dflt', 'float': 2.5, 'bool': True}
NAMES = ('alpha', 'beta_two', 'my_field', 'id_num', 'url_path', 'count', 'inner_val', 'zz', 'payload', 'data', 'key_name', 'flag_on')
STYLES = ('snake', 'camel', 'pascal', 'kebab', 'scream')


class Sentinel:
    def __repr__(self):
        return 'DFLT'


def gen_program(rng):
    depth = rng.choice((1, 2, 2, 3, 3, 4))
    generic = rng.random() < 0.6
    levels = []
    params = rng.sample(['T', 'U', 'V'], rng.choice((1, 2))) if generic else []
    used = []
    have_default = False
    for li in range(depth):
        lv = {'fields': [], 'opts': {}, 'kw_marker': None, 'mixin': rng.random() < 0.15 and li > 0}
        if li == 0:
            lv['params'], lv['base_args'], lv['explicit'] = list(params), None, bool(params)
        else:
            parent_params = levels[-1]['params']
            if parent_params:
                mode = rng.choice(('bind', 'forward', 'redeclare', 'partial', 'swap', 'plain', 'explicit-new-only', 'nested', 'nested'))
                if mode == 'plain':
                    lv['base_args'], lv['params'], lv['explicit'] = None, list(parent_params), False
                elif mode == 'bind':
                    lv['base_args'] = [rng.choice(CONCRETE) for _ in parent_params]
                    lv['params'], lv['explicit'] = [], False
                elif mode == 'nested':
                    # the new variables sit INSIDE the arguments: class ListBox(Box[List[U]]), class Multi(Pair[K, Dict[str, V]])
                    newv = rng.sample(['T', 'U', 'V', 'W'], len(parent_params))
                    wraps = [rng.choice(('list', 'dict', 'opt', 'bare', 'tupint')) for _ in newv]
                    if all(w == 'bare' for w in wraps):
                        wraps[0] = 'list'
                    lv['base_args'] = [{'list': ('list', ('tv', v)), 'dict': ('dict', ('tv', v)), 'opt': ('opt', ('tv', v)), 'bare': ('tv', v),
                                        'tupint': ('tup', ('int',), ('tv', v))}[w] for v, w in zip(newv, wraps)]
                    lv['params'], lv['explicit'] = list(dict.fromkeys(newv)), False
                elif mode == 'forward':
                    newv = rng.sample(['T', 'U', 'V', 'W'], len(parent_params))
                    lv['base_args'] = [('tv', v) for v in newv]
                    lv['params'], lv['explicit'] = list(dict.fromkeys(newv)), False
                elif mode == 'explicit-new-only':
                    newv = rng.sample(['T', 'U', 'V', 'W'], len(parent_params))
                    lv['base_args'] = [('tv', v) for v in newv]
                    extra = [v for v in ('T', 'U', 'V', 'W') if v not in newv][:1]
                    if extra:
                        lv['generic_listed'] = extra                  # Generic[extra] only
                        lv['params'], lv['explicit'] = extra + list(dict.fromkeys(newv)), True
                    else:
                        lv['params'], lv['explicit'] = list(dict.fromkeys(newv)), False
                elif mode == 'redeclare':
                    newv = rng.sample(['T', 'U', 'V', 'W'], len(parent_params))
                    lv['base_args'] = [('tv', v) for v in newv]
                    extra = [v for v in ('T', 'U', 'V', 'W') if v not in newv][:rng.choice((0, 1))]
                    order = list(dict.fromkeys(newv)) + extra
                    rng.shuffle(order)
                    lv['params'], lv['explicit'] = order, True
                elif mode == 'swap':
                    newv = list(reversed(parent_params)) if len(parent_params) > 1 else list(parent_params)
                    lv['base_args'] = [('tv', v) for v in newv]
                    lv['params'], lv['explicit'] = list(dict.fromkeys(newv)), False
                else:  # partial: bind the first, forward the rest, explicit Generic for the rest
                    lv['base_args'] = [rng.choice(CONCRETE)] + [('tv', v) for v in parent_params[1:]]
                    rest = list(dict.fromkeys(parent_params[1:]))
                    lv['params'], lv['explicit'] = rest, bool(rest) and rng.random() < 0.7
                    if any(isinstance(a, tuple) and a[0] == 'tv' for a in lv['base_args']) is False:
                        lv['params'] = []
            else:
                lv['base_args'], lv['params'], lv['explicit'] = None, [], False
        # fields
        nnew = rng.choice((0, 1, 1, 2)) if li else rng.choice((1, 2, 3))
        names = [n for n in NAMES if n not in used]
        rng.shuffle(names)
        kw_marker_pos = rng.choice((None, None, None, 0, 1))
        for j in range(nnew):
            name = names.pop()
            used.append(name)
            ty = gen_expr(rng, lv['params'])
            kw = rng.random() < 0.2
            if kw_marker_pos is not None and j >= kw_marker_pos:
                lv['kw_marker'] = kw_marker_pos
            in_kw = kw or (lv['kw_marker'] is not None and j >= lv['kw_marker'])
            if in_kw:
                has_d = rng.random() < 0.6
            else:
                has_d = have_default or (li > 0) or rng.random() < 0.35
                have_default = have_default or has_d
            lv['fields'].append({'name': name, 'ty': ty, 'default': Sentinel() if has_d and ty[0] not in DEFAULTS else (DEFAULTS.get(ty[0]) if has_d else None),
                                 'has_default': has_d, 'kw': kw})
        # redeclare an inherited, defaulted field with another type / default (declared before this level's new fields)
        if li > 0 and rng.random() < 0.4:
            resolved, _, _ = resolve(levels)
            prior = [n for n, f in resolved if f['has_default'] and n != 'probe_f']
            if prior:
                n0 = rng.choice(prior)
                was_kw = dict(resolved)[n0]['kw']
                ty = gen_expr(rng, lv['params'])
                lv['fields'].insert(0, {'name': n0, 'ty': ty, 'has_default': True, 'default': DEFAULTS.get(ty[0], Sentinel()),
                                        'kw': was_kw or rng.random() < 0.2, 'redeclared': True})
        # options
        if rng.random() < 0.35:
            lv['opts']['in_format'] = rng.choice((('struct',), ('struct', 'tuple'), ('tuple', 'struct')))
        r_ = rng.random()
        if r_ < 0.2:
            lv['opts']['rename'] = rng.choice(STYLES)
        elif r_ < 0.3:
            lv['opts']['out_rename'] = rng.choice(STYLES)        # one direction only: the other direction stays as inherited
        elif r_ < 0.38:
            lv['opts']['in_rename'] = rng.choice(STYLES)
        if rng.random() < 0.2:
            lv['opts']['out_format'] = rng.choice(('struct', 'tuple', 'tuple'))    # the output layout alone: the inherited input layouts stay
        if rng.random() < 0.2:
            lv['opts']['allow_extra'] = rng.choice((True, False))
        if rng.random() < 0.2:
            lv['opts']['frozen'] = rng.choice((True, False))
        if rng.random() < 0.12:
            lv['opts']['kw_only'] = rng.choice((True, False))
        levels.append(lv)
        # tuple input needs defaults on every keyword-only field: keep each prefix of the program legal
        ordered, eff, _ = resolve(levels)
        if 'tuple' in eff['in_format'] and any(f['kw'] and not f['has_default'] for _, f in ordered):
            lv['opts']['in_format'] = ('struct',)
    return levels


# ---- independent resolver -------------------------------------------------------------------------------------------------
def resolve(levels):
    """Effective fields (ordered), options and parameters of the leaf class."""
    fields = {}          # name -> dict(ty, has_default, default, kw)
    opts = {'in_format': ('struct',), 'out_format': 'struct', 'rename': None, 'in_style': None, 'out_style': None, 'allow_extra': False, 'frozen': True,
            'kw_only': False}
    params = []
    for lv in levels:
        if lv['base_args'] is not None:
            m = dict(zip(params, lv['base_args']))
            for f in fields.values():
                f['ty'] = subst(f['ty'], m)
        params = list(lv['params'])
        opts.update(lv['opts'])
        if 'rename' in lv['opts']:
            opts['in_style'] = opts['out_style'] = lv['opts']['rename']
        if 'in_rename' in lv['opts']:
            opts['in_style'] = lv['opts']['in_rename']
        if 'out_rename' in lv['opts']:
            opts['out_style'] = lv['opts']['out_rename']
        seen_marker = False
        own_index = 0
        for f in lv['fields']:
            if not f.get('redeclared'):
                if lv['kw_marker'] is not None and own_index >= lv['kw_marker']:
                    seen_marker = True
                own_index += 1
            kw = bool(f['kw'] or opts['kw_only'] or (seen_marker and not f.get('redeclared')))
            fields[f['name']] = {'ty': f['ty'], 'has_default': f['has_default'], 'default': f['default'], 'kw': kw}
    ordered = [(n, f) for n, f in fields.items() if not f['kw']] + [(n, f) for n, f in fields.items() if f['kw']]
    return ordered, opts, params


# ---- building the real hierarchy and the stdlib mirror ----------------------------------------------------------------------
class Probe:
    def __init__(self, v): self.v = v
    def __eq__(self, o): return isinstance(o, Probe) and o.v == self.v
    def __hash__(self): return hash(self.v)
    def __repr__(self): return f"Probe({self.v!r})"


def probe_converter(tagname):
    class PC(env.Converter):
        def expected(self, plural=False): return 'probe'
        def into_data(self, val): return val.v[1] if isinstance(val, Probe) else val
        def try_convert(self, val):
            if isinstance(val, str): return Probe((tagname, val))
            raise env.ParseInterrupt()
        def collect_errors(self, val):
            return None if isinstance(val, str) else env.m_errors.WrongTypeError('probe', val)
    return PC()


def build_hierarchy(levels, with_custom=False):
    """Returns (leaf pane class, leaf stdlib class | None)."""
    base, sbase = env.PaneBase, None
    kw_class_effective = False
    for li, lv in enumerate(levels):
        ns, sns_fields = {'__module__': __name__}, []
        ann = {}
        own_index = 0
        marker_emitted = False
        if 'kw_only' in lv['opts']:
            kw_class_effective = lv['opts']['kw_only']
        for f in lv['fields']:
            if not f.get('redeclared') and lv['kw_marker'] is not None and own_index == lv['kw_marker'] and not marker_emitted:
                ann['_'] = env.KW_ONLY
                marker_emitted = True
            if not f.get('redeclared'):
                own_index += 1
            # a redeclared field placed after the marker is keyword-only as well (it is declared after it)
            ann[f['name']] = to_py(f['ty'])
            kwargs = {}
            if f['kw']:
                kwargs['kw_only'] = True
            if f['has_default']:
                kwargs['default'] = f['default']
            if kwargs.keys() - {'default'}:
                ns[f['name']] = env.pfield(**kwargs)
            elif f['has_default']:
                ns[f['name']] = f['default']
        ns['__annotations__'] = ann
        bases = [base if lv['base_args'] is None else base[tuple(to_py(a) for a in lv['base_args'])]]
        if lv['mixin']:
            bases.append(type(f"Mixin{next(_serial)}", (), {'helper': lambda self: 1}))
        if lv['explicit'] and lv['params']:
            bases.append(t.Generic[tuple(TVS[p] for p in lv.get('generic_listed', lv['params']))])
        opts = dict(lv['opts'])
        if with_custom and li == 0:
            opts['custom'] = {Probe: probe_converter('L0')}
        if with_custom in ('overridden', 'emptied', 'emptied-tuple') and li == len(levels) - 1 and li > 0:
            opts['custom'] = {'overridden': {Probe: probe_converter('L1')}, 'emptied': {}, 'emptied-tuple': ()}[with_custom]
        name = f"L{li}_{next(_serial)}"
        base = types.new_class(name, tuple(bases), opts, lambda d, ns=ns: d.update(ns))
    return base


def build_mirror(levels):
    """Standard-library dataclass chain with the same fields / keyword-only-ness / defaults (no generics, no options)."""
    sbase = None
    kw_class = False
    for li, lv in enumerate(levels):
        if 'kw_only' in lv['opts']:
            kw_class = lv['opts']['kw_only']
        ann, ns = {}, {}
        own_index, marker_emitted = 0, False
        for f in lv['fields']:
            if not f.get('redeclared') and lv['kw_marker'] is not None and own_index == lv['kw_marker'] and not marker_emitted:
                ann['_'] = dataclasses.KW_ONLY
                marker_emitted = True
            if not f.get('redeclared'):
                own_index += 1
            ann[f['name']] = object
            kwargs = {}
            if f['kw']:
                kwargs['kw_only'] = True
            if f['has_default']:
                kwargs['default'] = f['default']
            if kwargs:
                ns[f['name']] = dataclasses.field(**kwargs)
        ns['__annotations__'] = ann
        cls = type(f"M{li}", (sbase,) if sbase else (), ns)
        sbase = dataclasses.dataclass(cls, kw_only=kw_class)
    return sbase


def program_shape(levels):
    return tuple((len(lv['fields']), sum(1 for f in lv['fields'] if f.get('redeclared')), lv['kw_marker'], tuple(sorted(lv['opts'])),
                  None if lv['base_args'] is None else tuple(a[0] for a in lv['base_args']), tuple(lv['params']), lv['explicit'], lv['mixin'])
                 for lv in levels)


def run(ctx):
    def body(i, rng, ty, T):
        levels = gen_program(rng)
        with_custom = rng.random() < 0.2
        if with_custom and len(levels) > 1:
            # the leaf class may override the handlers it inherits - also with an EMPTY set of handlers, which switches them off
            with_custom = rng.choice((True, True, 'overridden', 'emptied', 'emptied-tuple'))
        if with_custom:
            levels[0]['fields'].append({'name': 'probe_f', 'ty': ('probe',), 'has_default': True, 'default': Probe(('dflt', '')), 'kw': True})
        built = observe(build_hierarchy, levels, with_custom)
        ctx.count('hierarchies')
        shape = program_shape(levels)
        wit0 = {'program': short(levels, 900)}
        if built.kind != 'value':
            # a legal program must build
            ctx.violation('hierarchy-builds', 'main', i, {**wit0, 'error': built.brief()}, mech=f"class-creation:{type(built.exc).__name__}")
            return
        leaf = built.val
        fields, opts, params = resolve(levels)
        ctx.case(shape, sample={'levels': len(levels), 'leaf_fields': [(n, f['ty'], f['kw'], f['has_default']) for n, f in fields][:6],
                                'params': params, 'options': {k: v for k, v in opts.items()}})
        if params or any(lv['params'] for lv in levels):
            ctx.count('generic_hierarchies')
        if any(f.get('redeclared') for lv in levels for f in lv['fields']):
            ctx.count('redeclared_fields')
        # parameters of the leaf
        got_params = tuple(getattr(p, '__name__', str(p)) for p in getattr(leaf, '__parameters__', ()))
        if got_params != tuple(params):
            ctx.violation('type-parameters', 'main', i, {**wit0, 'leaf.__parameters__': got_params, 'resolver': params}, mech='leaf-parameters')
            return
        # bind remaining parameters and compute the fully substituted field types
        final = leaf
        binding = {}
        if params:
            args = [rng.choice(CONCRETE) for _ in params]
            binding = dict(zip(params, args))
            sub = observe(lambda: leaf[tuple(to_py(a) for a in args)])
            if sub.kind != 'value':
                ctx.violation('subscription', 'main', i, {**wit0, 'args': args, 'error': sub.brief()}, mech=f"subscript:{type(sub.exc).__name__}")
                return
            final = sub.val
        exp_fields = [(n, {**f, 'ty': None if f['ty'] == ('probe',) else subst(f['ty'], binding)}) for n, f in fields]

        # ---- signature: names, kinds, defaults, annotations -----------------------------------------------------------------
        sig = inspect.signature(final)
        ctx.count('signature_checks')
        got = [(p.name, p.kind == p.KEYWORD_ONLY, p.default is not p.empty) for p in sig.parameters.values()]
        want = [(n, f['kw'], f['has_default']) for n, f in exp_fields]
        if got != want:
            ctx.violation('effective-fields-and-order', 'main', i, {**wit0, 'signature': str(sig), 'resolver (name, kw_only, has_default)': want}, mech='signature-order-or-kinds')
            return
        for (n, f), p in zip(exp_fields, sig.parameters.values()):
            if f['ty'] is None:
                continue
            want_t = to_py(f['ty'])
            if not same_type(p.annotation, want_t):
                ctx.violation('type-variable-substitution', 'main', i, {**wit0, 'field': n, 'annotation': short(p.annotation), 'resolver': short(want_t), 'binding': binding},
                              mech='signature-annotation')
                return
            if f['has_default'] and p.default is not f['default'] and p.default != f['default']:
                ctx.violation('effective-fields-and-order', 'main', i, {**wit0, 'field': n, 'default': short(p.default), 'resolver': short(f['default'])}, mech='signature-default')
                return
        # ---- stdlib mirror: parameter names, kinds, defaults -----------------------------------------------------------------
        if not with_custom:
            mir = observe(build_mirror, levels)
            if mir.kind == 'value':
                ctx.count('stdlib_mirror_checks')
                ms = [(p.name, p.kind == p.KEYWORD_ONLY, p.default is not p.empty) for p in inspect.signature(mir.val).parameters.values()]
                if ms != got:
                    ctx.violation('effective-fields-and-order', 'main', i, {**wit0, 'pane': got, 'stdlib_dataclass': ms}, mech='differs-from-stdlib-dataclass')
                    return
            else:
                ctx.count('stdlib_mirror_unbuildable')
        # ---- instance: repr order, tuple layout, conversion of substituted types ---------------------------------------------
        data, typed = {}, {}
        tys = {}
        for n, f in exp_fields:
            if f['ty'] is None:
                continue
            fty = to_ty(f['ty'])
            tys[n] = fty
            for _ in range(5):
                v = genval.member(fty, rng, small=True)
                r = model.spec(fty, v)
                if r.v == model.ACC:
                    data[n], typed[n] = v, r.val
                    break
        if len(data) != len(tys):
            return
        style = opts['in_style']
        out_style = opts['out_style']
        key = (lambda n: model.style_name(n, style)) if style else (lambda n: n)
        okey = (lambda n: model.style_name(n, out_style)) if out_style else (lambda n: n)
        mapping = {key(n): v for n, v in data.items()}
        if with_custom in ('emptied', 'emptied-tuple'):
            # the leaf class switched the inherited handlers off: the probe field has no converter any more, and says so
            pc = observe(final.from_data, {**mapping, key('probe_f'): 'hello'})
            ctx.count('custom_switched_off_checks')
            if not (pc.kind == 'escape' and isinstance(pc.exc, TypeError)):
                ctx.violation('options-inherited', 'main', i, {**wit0, 'option': 'custom', 'overridden_with': with_custom, 'outcome': pc.brief()},
                              mech='custom-handlers-not-switched-off')
            return
        out = observe(final.from_data, mapping)
        ctx.count('substituted_field_conversions')
        wit = {**wit0, 'final': short(final), 'binding': binding, 'data': short(mapping, 300), 'outcome': out.brief()}
        if out.kind != 'value':
            ctx.violation('conversion-enforces-substituted-types', 'main', i, wit, mech='member-rejected')
            return
        inst = out.val
        for n, exp in typed.items():
            ok, why = deep_typed_eq(exp, getattr(inst, n, '<missing>'))
            if not ok:
                ctx.violation('conversion-enforces-substituted-types', 'main', i, {**wit, 'field': n, 'why': why}, mech='field-image')
                return
        want_repr = f"{type(inst).__name__}(" + ", ".join(f"{n}={getattr(inst, n)!r}" for n, f in exp_fields) + ")"
        if repr(inst) != want_repr:
            ctx.violation('effective-fields-and-order', 'main', i, {**wit0, 'repr': repr(inst), 'resolver_order': [n for n, _ in exp_fields]}, mech='repr-order')
            return
        # near-members: one field at a time gets a value its substituted type rejects
        for n, fty in list(tys.items())[:3]:
            bad = genval.mutate(data[n], rng)
            r = model.spec(fty, bad)
            if r.v == model.UNS:
                continue
            o = observe(final.from_data, {**mapping, key(n): bad})
            ctx.count('substituted_field_conversions')
            if o.kind == 'escape' or (o.kind == 'value') != (r.v == model.ACC):
                ctx.violation('conversion-enforces-substituted-types', 'main', i,
                              {**wit0, 'field': n, 'substituted_type': str(fty), 'value': short(bad, 120), 'model': repr(r)[:100], 'pane': o.brief()},
                              mech='substituted-type-not-enforced' if o.kind == 'value' else 'substituted-type-too-strict')
                return
        # ---- option inheritance, observed behaviourally ------------------------------------------------------------------------
        ctx.count('option_inheritance_checks')
        pos = [(n, f) for n, f in exp_fields if not f['kw']]
        tup = observe(final.from_data, [data[n] for n, f in pos if n in data])
        kw_required = any(f['kw'] and not f['has_default'] for n, f in exp_fields)
        tuple_ok = 'tuple' in opts['in_format'] and not kw_required and len(pos) == len([n for n, _ in pos if n in data])
        if 'tuple' in opts['in_format'] and not kw_required:
            if tup.kind != 'value':
                ctx.violation('options-inherited', 'main', i, {**wit0, 'option': 'in_format', 'effective': opts['in_format'], 'tuple_input': tup.brief()}, mech='inherited-in_format:tuple-refused')
                return
            for (n, f), v in zip(pos, [typed[n] for n, _ in pos if n in typed]):
                if not deep_typed_eq(v, getattr(tup.val, n))[0]:
                    ctx.violation('effective-fields-and-order', 'main', i, {**wit0, 'tuple_input': short(tup.val), 'resolver_positions': [n for n, _ in pos]}, mech='tuple-layout-order')
                    return
        elif 'tuple' not in opts['in_format'] and tup.kind == 'value' and pos:
            ctx.violation('options-inherited', 'main', i, {**wit0, 'option': 'in_format', 'effective': opts['in_format'], 'tuple_input': tup.brief()}, mech='inherited-in_format:tuple-accepted')
            return
        ex = observe(final.from_data, {**mapping, 'zz_not_a_field': 1})
        if (ex.kind == 'value') != bool(opts['allow_extra']):
            ctx.violation('options-inherited', 'main', i, {**wit0, 'option': 'allow_extra', 'effective': opts['allow_extra'], 'with_extra_key': ex.brief()}, mech='inherited-allow_extra')
            return
        od = observe(inst.into_data)
        ctx.count('out_format_checks')
        is_map = od.kind == 'value' and model.is_map(od.val)
        is_seq = od.kind == 'value' and model.is_seq(od.val)
        if od.kind != 'value' or (opts['out_format'] == 'struct') != is_map or (opts['out_format'] == 'tuple') != is_seq:
            ctx.violation('options-inherited', 'main', i, {**wit0, 'option': 'out_format', 'effective': opts['out_format'], 'into_data': od.brief()}, mech='inherited-out_format')
            return
        if opts['out_format'] == 'struct':
            od = observe(inst.into_data)
            ctx.count('rename_direction_checks')
            if od.kind != 'value' or [k_ for k_ in od.val.keys() if k_ != okey('probe_f')] != [okey(n) for n, f in exp_fields if f['ty'] is not None]:
                ctx.violation('options-inherited', 'main', i, {**wit0, 'option': 'rename / out_rename', 'effective_output_style': out_style, 'into_data': od.brief()},
                              mech='inherited-rename')
                return
        st = observe(setattr, inst, exp_fields[0][0], getattr(inst, exp_fields[0][0]))
        if (st.kind == 'value') == bool(opts['frozen']):
            ctx.violation('options-inherited', 'main', i, {**wit0, 'option': 'frozen', 'effective': opts['frozen'], 'setattr': st.brief()}, mech='inherited-frozen')
            return
        if with_custom:
            ctx.count('custom_inherited_checks')
            pc = observe(final.from_data, {**mapping, key('probe_f'): 'hello'})
            if with_custom in ('emptied', 'emptied-tuple'):
                ctx.count('custom_switched_off_checks')
                if not (pc.kind == 'escape' and isinstance(pc.exc, TypeError)):
                    ctx.violation('options-inherited', 'main', i, {**wit0, 'option': 'custom', 'overridden_with': with_custom, 'outcome': pc.brief()},
                                  mech='custom-handlers-not-switched-off')
                    return
            else:
                lvl = 'L1' if with_custom == 'overridden' else 'L0'
                if pc.kind != 'value' or getattr(pc.val, 'probe_f', None) != Probe((lvl, 'hello')):
                    ctx.violation('options-inherited', 'main', i, {**wit0, 'option': 'custom', 'expected_level': lvl, 'outcome': pc.brief()}, mech='inherited-custom-handlers')
                    return

    drive.for_each_case(ctx, 'main', ctx.budget, body, gen=lambda c, r: Ty('int'), seconds=40)

    # arguments that are themselves subscripted generics (Envelope[Ok[int]] beside Envelope[Ok[str]]): substitution reaches every depth
    # and each parametrisation keeps its own argument
    from .. import special

    def body_nesting(i, rng, ty, T):
        for desc, TT, v, must in special.generic_nesting_case(rng):
            out = observe(env.from_data, v, TT)
            ctx.count('generic_nesting_rows')
            ctx.case(('generic-nesting', desc.split('<-')[1], must, out.kind), nontrivial=True)
            if out.kind == 'escape' or (out.kind == 'value') != must:
                ctx.violation('conversion-enforces-substituted-types', 'nesting', i, {'case': desc, 'type': short(TT, 200), 'value': short(v, 150), 'must_accept': must,
                                                                                  'pane': out.brief()}, mech='nested-generic-argument-confused')
                return

    drive.for_each_case(ctx, 'nesting', 60, body_nesting, gen=lambda c, r: Ty('int'))

    # a field redeclared PLAINLY by a subclass is a new field: the parent's alias, exclusion, keyword-only flag and field converter go;
    # and a field with `converter=` still has its type variables substituted (signature, constructor)
    def body_field_options(i, rng, ty, T):
        import types as _types
        TV = t.TypeVar('TV')
        passthrough = probe_converter('FC')
        Base = type(f"FOB{next(_serial)}", (env.PaneBase,), {'__annotations__': {'a': int, 'opt': str}, '__module__': __name__,
                                                              'opt': env.pfield(default='d', aliases=('OLD',), kw_only=True, exclude=rng.random() < 0.5)})
        Child = type(f"FOC{next(_serial)}", (Base,), {'__annotations__': {'opt': int}, 'opt': 7, '__module__': __name__})
        ctx.count('redeclared_field_option_checks')
        sig = list(inspect.signature(Child).parameters.values())
        names_kinds = [(p_.name, p_.kind == p_.KEYWORD_ONLY) for p_ in sig]
        o_alias = observe(Child.from_data, {'a': 1, 'OLD': 3})
        o_plain = observe(Child.from_data, {'a': 1, 'opt': 3})
        o_pos = observe(Child, 1, 3)
        d = observe(lambda: Child(1, 3).into_data())
        bad = []
        if names_kinds != [('a', False), ('opt', False)]: bad.append(f"signature {names_kinds}")
        if o_alias.kind == 'value': bad.append("the parent's alias still binds the redeclared field")
        if o_plain.kind != 'value' or o_plain.val.opt != 3: bad.append(f"plain name refused: {o_plain.brief()}")
        if o_pos.kind != 'value': bad.append(f"positional construction refused: {o_pos.brief()}")
        if d.kind != 'value' or d.val != {'a': 1, 'opt': 3}: bad.append(f"into_data {d.brief()}")
        if bad:
            ctx.violation('effective-fields-and-order', 'field-options', i, {'parent_field': "opt: str = field(default='d', aliases=('OLD',), kw_only=True, exclude=?)",
                                                                            'child_redeclares': 'opt: int = 7', 'problems': bad}, mech='redeclared-field-keeps-parent-options')
            return
        G = _types.new_class(f"FOG{next(_serial)}", (env.PaneBase, t.Generic[TV]), {}, lambda ns: ns.update({
            '__annotations__': {'label': str, 'vals': t.List[TV]}, '__module__': __name__, 'vals': env.pfield(converter=passthrough)}))
        GI = G[int]
        Sub = _types.new_class(f"FOS{next(_serial)}", (G[TV],), {}, lambda ns: ns.update({'__annotations__': {}, '__module__': __name__}))
        ctx.count('converter_field_substitution_checks')
        for cls_, label in ((GI, 'G[int]'), (Sub[float], 'Sub(G[TV])[float]')):
            ann = inspect.signature(cls_).parameters['vals'].annotation
            want = t.List[int] if label == 'G[int]' else t.List[float]
            if not same_type(ann, want):
                ctx.violation('type-variable-substitution', 'field-options', i, {'class': label, 'field': 'vals: List[TV] = field(converter=...)', 'annotation': short(ann),
                                                                                'expected': short(want)}, mech='converter-field-not-substituted')
                return

    drive.for_each_case(ctx, 'field-options', 40, body_field_options, gen=lambda c, r: Ty('int'))

    # the parametrisation stays with the instance (__replace__ re-validates against the SUBSTITUTED types and returns the same
    # parametrised class), and a subscript with the wrong number of arguments is refused where it is written
    def body_parametrised_instances(i, rng, ty, T):
        import types as _types
        TA, TB = t.TypeVar('TA'), t.TypeVar('TB')
        Box = _types.new_class(f"PBox{next(_serial)}", (env.PaneBase, t.Generic[TA]), {}, lambda ns: ns.update({'__annotations__': {'x': TA, 'n': int}, 'n': 0, '__module__': __name__}))
        Two = _types.new_class(f"PTwo{next(_serial)}", (env.PaneBase, t.Generic[TA, TB]), {}, lambda ns: ns.update({'__annotations__': {'a': TA, 'b': TB}, '__module__': __name__}))
        arg, good, good2, bad = rng.choice(((int, 5, 7, 's'), (str, 's', 'u', 5), (t.List[int], [1], [2, 3], ['a'])))
        # two parametrisations whose arguments PRINT alike (Union[None, E] / Union[E, None] inside a PEP 585 generic): each substitutes
        # its own argument, whichever was subscripted first
        import enum as _enum
        E = _enum.Enum(f"Maybe{next(_serial)}", {'NOTHING': None, 'ONE': 1})
        wrapf = rng.choice((lambda u: list[u], lambda u: dict[str, u], lambda u: tuple[u, int]))
        twins = [(wrapf(t.Union[None, E]), None), (wrapf(t.Union[E, None]), E.NOTHING)]
        if rng.random() < 0.5:
            twins.reverse()
        for targ, want in twins:
            data = [None] if t.get_origin(targ) is list else ({'k': None} if t.get_origin(targ) is dict else [None, 1])
            o = observe(lambda: Box[targ].from_data({'x': data}).x)
            got = (o.val[0] if isinstance(o.val, (list, tuple)) else o.val['k']) if o.kind == 'value' else None
            ctx.count('print_alike_argument_checks')
            if o.kind != 'value' or got is not want:
                ctx.violation('type-variable-substitution', 'parametrised', i, {'argument': short(targ, 100), 'arguments_in_order_subscripted': [short(a, 80) for a, _ in twins],
                                                                              'data': short(data), 'read_as': o.brief()[:120], 'expected_element': short(want)},
                              mech='print-alike-arguments-share-a-parametrisation')
                return
        inst = Box[arg](good)
        ok_r = observe(inst.__replace__, x=good2)
        bad_r = observe(inst.__replace__, x=bad)
        ctx.count('parametrised_instance_checks')
        if ok_r.kind != 'value' or type(ok_r.val) is not type(inst) or ok_r.val.x != good2 or bad_r.kind != 'converr':
            ctx.violation('conversion-enforces-substituted-types', 'parametrised', i,
                          {'instance': f"Box[{short(arg, 40)}]({good!r})", 'replace_with_member': ok_r.brief(), 'result_class_is_the_parametrised_class': ok_r.kind == 'value' and type(ok_r.val) is type(inst),
                           'replace_with_non_member': bad_r.brief()}, mech='replace-loses-the-parametrisation')
            return
        for label, thunk in (('Two[int]', lambda: Two[int]), ('Box[int, str]', lambda: Box[int, str]), ('Box[int][str]', lambda: Box[int][str]),
                             ('class Bad(Two[int])', lambda: type('Bad', (Two[int],), {'__annotations__': {}, '__module__': __name__})),
                             ('Two[int, str, float]', lambda: Two[int, str, float])):
            o = observe(thunk)
            ctx.count('arity_checks')
            if o.kind == 'value' or not isinstance(o.exc, TypeError):
                ctx.violation('type-variable-substitution', 'parametrised', i, {'subscript': label, 'outcome': o.brief()}, mech='wrong-arity-subscript-accepted')
                return
        # a subclass adds a field: its instances are written with it, also after an instance of the base was written through the method
        inst.into_data()
        Child = type(f"PChild{next(_serial)}", (Box[arg],), {'__annotations__': {'extra': str}, 'extra': 'e', '__module__': __name__})
        ch = Child(good, 1, 'E')
        m = observe(ch.into_data)
        ctx.count('subclass_method_checks')
        if m.kind != 'value' or m.val != {'x': env.into_data(good, arg), 'n': 1, 'extra': 'E'}:
            ctx.violation('effective-fields-and-order', 'parametrised', i, {'base_written_first': short(inst), 'subclass_instance': short(ch), 'x.into_data()': m.brief()},
                          mech='subclass-written-with-the-base-class-fields')
            return
        full = observe(lambda: Two[int, str](1, 's'))
        if full.kind != 'value':
            ctx.violation('type-variable-substitution', 'parametrised', i, {'subscript': 'Two[int, str](1, "s")', 'outcome': full.brief()}, mech='right-arity-subscript-refused')

    drive.for_each_case(ctx, 'parametrised', 40, body_parametrised_instances, gen=lambda c, r: Ty('int'))

    # type variables INSIDE other subscripted pane dataclasses and struct literals used as field types (`inner: Inner[T]`,
    # `many: List[Inner[List[T]]]`, `pair: Pair[T, str]`, `lit: {'a': T}`): Outer[A] enforces A in every one of them, through
    # subscripting, subclassing and re-parametrisation
    def body_inner_generics(i, rng, ty, T):
        import types as _types
        import warnings as _warnings
        TA, TB = t.TypeVar('TA'), t.TypeVar('TB')
        n = next(_serial)
        Inner = _types.new_class(f"GInner{n}", (env.PaneBase, t.Generic[TA]), {}, lambda ns: ns.update({'__annotations__': {'x': TA}, '__module__': __name__}))
        Pair = _types.new_class(f"GPair{n}", (env.PaneBase, t.Generic[TA, TB]), {}, lambda ns: ns.update({'__annotations__': {'l': TA, 'r': TB}, '__module__': __name__}))
        placements = {
            'inner': (Inner[TA], lambda v: {'x': v}),
            'many': (t.List[Inner[t.List[TA]]], lambda v: [{'x': [v]}, {'x': []}]),
            'pair': (Pair[TA, str], lambda v: {'l': v, 'r': 's'}),
            'pair2': (Pair[int, TA], lambda v: {'l': 1, 'r': v}),
            'lit': ({'a': TA, 'b': int}, lambda v: {'a': v, 'b': 1}),
            'opt': (t.Optional[Inner[TA]], lambda v: {'x': v}),
            'dmap': (t.Dict[str, Inner[TA]], lambda v: {'k': {'x': v}}),
            'deep': (Inner[Inner[TA]], lambda v: {'x': {'x': v}}),
            'tup': (t.Tuple[Inner[TA], int], lambda v: [{'x': v}, 1]),
        }
        names = rng.sample(sorted(placements), rng.choice((2, 3, 4)))
        ann = {nm: placements[nm][0] for nm in names}
        with _warnings.catch_warnings():
            _warnings.simplefilter('ignore')
            Outer = _types.new_class(f"GOuter{n}", (env.PaneBase, t.Generic[TA]), {}, lambda ns: ns.update({'__annotations__': dict(ann), '__module__': __name__}))
            arg, good, bad = rng.choice(((int, 5, 's'), (str, 's', 5), (t.List[int], [1], ['a']), (float, 2.5, 'x'), (bool, True, 'yes')))
            route = rng.choice(('subscript', 'subclass', 'reparam', 'reparam-subclass'))
            mk = {'subscript': lambda: Outer[arg],
                  'subclass': lambda: type(f"GSub{n}", (Outer[arg],), {'__annotations__': {}, '__module__': __name__}),
                  'reparam': lambda: _types.new_class(f"GMid{n}", (Outer[TB], t.Generic[TB]), {}, lambda ns: ns.update({'__annotations__': {}, '__module__': __name__}))[arg],
                  'reparam-subclass': lambda: type(f"GLeaf{n}", (_types.new_class(f"GMid{n}", (Outer[TB], t.Generic[TB]), {}, lambda ns: ns.update({'__annotations__': {}, '__module__': __name__}))[arg],),
                                                   {'__annotations__': {}, '__module__': __name__})}[route]
            built = observe(mk)
            if built.kind != 'value':
                ctx.violation('type-variable-substitution', 'inner-generics', i, {'fields': short(ann, 300), 'route': route, 'argument': short(arg, 40), 'class_creation': built.brief()},
                              mech='inner-generic-class-creation-failed')
                return
            C = built.val
            member = {nm: placements[nm][1](good) for nm in names}
            o = observe(C.from_data, member)
            ctx.count('inner_generic_checks')
            ctx.case(('inner-generics', route, tuple(sorted(names)), o.kind), nontrivial=True)
            if o.kind != 'value':
                ctx.violation('conversion-enforces-substituted-types', 'inner-generics', i, {'fields': short(ann, 300), 'route': route, 'argument': short(arg, 40), 'member': short(member, 200),
                                                                                        'pane': o.brief()}, mech='inner-generic-member-refused')
                return
            for nm in names:
                near = {**member, nm: placements[nm][1](bad)}
                o = observe(C.from_data, near)
                ctx.count('inner_generic_checks')
                if o.kind != 'converr':
                    ctx.violation('conversion-enforces-substituted-types', 'inner-generics', i,
                                  {'fields': short(ann, 300), 'route': route, 'argument': short(arg, 40), 'field': nm, 'non_member': short(near, 200), 'pane': o.brief()},
                                  mech=f"inner-generic-variable-not-substituted:{'struct-literal' if nm == 'lit' else 'pane-class'}")
                    return

    drive.for_each_case(ctx, 'inner-generics', 60, body_inner_generics, gen=lambda c, r: Ty('int'))

    # a PLAIN subclass of a subscripted generic used as a field type is a class of its own (its added fields stay) when the enclosing
    # generic is subscripted; and a class listing an ordinary mixin (or Generic[...]) FIRST still inherits its pane parent's options
    def body_plain_subclass_and_mixins(i, rng, ty, T):
        import types as _types
        import warnings as _warnings
        TA, TB = t.TypeVar('TA'), t.TypeVar('TB')
        n = next(_serial)
        with _warnings.catch_warnings():
            _warnings.simplefilter('ignore')
            Box = _types.new_class(f"SBox{n}", (env.PaneBase, t.Generic[TA]), {}, lambda ns: ns.update({'__annotations__': {'x': TA}, '__module__': __name__}))
            Labelled = type(f"SLab{n}", (Box[TA],), {'__annotations__': {'label': str}, '__module__': __name__})
            Holder = _types.new_class(f"SHold{n}", (env.PaneBase, t.Generic[TA]), {}, lambda ns: ns.update({'__annotations__': {'box': Labelled, 'plain': Box[TA]}, '__module__': __name__}))
            route = rng.choice(('subscript', 'subclass', 'reparam'))
            C = {'subscript': lambda: Holder[int], 'subclass': lambda: type(f"SH2{n}", (Holder[int],), {'__annotations__': {}, '__module__': __name__}),
                 'reparam': lambda: _types.new_class(f"SH3{n}", (Holder[TB], t.Generic[TB]), {}, lambda ns: ns.update({'__annotations__': {}, '__module__': __name__}))[int]}[route]()
            rows = [({'box': {'x': 1, 'label': 's'}, 'plain': {'x': 2}}, True, 'member'), ({'box': {'x': 1}, 'plain': {'x': 2}}, False, "the subclass's own field missing"),
                    ({'box': {'x': 1, 'label': 5}, 'plain': {'x': 2}}, False, "the subclass's own field ill-typed"), ({'box': {'x': 1, 'label': 's'}, 'plain': {'x': 'no'}}, False, 'substituted field ill-typed')]
            for data, must, what in rows:
                o = observe(C.from_data, data)
                ctx.count('plain_subclass_field_checks')
                if (o.kind == 'value') != must or o.kind == 'escape' or (must and (type(o.val.box).__name__ != Labelled.__name__ or o.val.box.label != 's')):
                    ctx.violation('conversion-enforces-substituted-types', 'plain-subclass', i, {'field_type': 'class Labelled(Box[T]): label: str  (unsubscripted, inside Holder[T])', 'route': route,
                                                                                            'data': short(data, 150), 'case': what, 'must_accept': must, 'pane': o.brief()[:200]},
                                  mech='plain-subclass-of-subscripted-generic-rebuilt')
                    return
        # ---- mixin first
        style = rng.choice(('camel', 'scream', 'kebab'))
        Base = type(f"MBase{n}", (env.PaneBase,), {'__annotations__': {'my_field': int, 'opt_two': int}, 'opt_two': 0, '__module__': __name__},
                    allow_extra=True, out_rename=style, in_rename=('snake', style), in_format=('struct', 'tuple'), frozen=False, custom={int: probe_converter('m')})
        Mixin = type('DescribeMixin', (), {'describe': lambda self: 'me'})
        first = rng.choice(('mixin', 'generic'))
        if first == 'mixin':
            Cfg = observe(lambda: type(f"MCfg{n}", (Mixin, Base), {'__annotations__': {'zz_new': int}, 'zz_new': 1, '__module__': __name__}))
        else:
            # `class Cfg(Generic[U], Base)`: Generic written first, the (non-generic) pane parent second
            Cfg = observe(lambda: _types.new_class(f"MCfg{n}", (t.Generic[TB], Base), {}, lambda ns: ns.update({'__annotations__': {'zz_new': int, 'gen_val': t.Optional[TB]}, 'zz_new': 1,
                                                                                                                  'gen_val': None, '__module__': __name__})))
        ctx.count('mixin_first_classes')
        if Cfg.kind != 'value':
            ctx.count('mixin_first_unbuildable')
            ctx.mark('mixin_first_build_errors', f"{first}: {Cfg.brief()[:100]}")
            return
        K = Cfg.val
        from .c20 import canonical
        facts = {}
        o = observe(K.from_data, {'my_field': 'v', 'unknown_key': 1})
        facts['allow_extra inherited'] = o.kind == 'value'
        o2 = observe(K.from_data, ['v'])
        facts['tuple layout inherited'] = o2.kind == 'value'
        o3 = observe(lambda: K.from_data({canonical('my_field', style): 'v'}).into_data())
        facts['renaming inherited'] = o3.kind == 'value' and canonical('my_field', style) in o3.val and canonical('zz_new', style) in o3.val
        facts['custom handlers inherited'] = o.kind == 'value' and isinstance(o.val.my_field, Probe)
        o4 = observe(lambda: setattr(K.from_data({'my_field': 'v'}), 'opt_two', 5))
        facts['frozen=False inherited'] = o4.kind == 'value'
        ctx.count('option_inheritance_checks', len(facts))
        ctx.case(('mixin-first', first, tuple(sorted(k for k, v in facts.items() if not v))), nontrivial=True)
        lost = sorted(k for k, v in facts.items() if not v)
        if lost:
            ctx.violation('options-inherited', 'mixin-first', i, {'bases': ['DescribeMixin', 'Base'] if first == 'mixin' else ['Generic[U]', 'Base'], 'lost': lost,
                                                               'from_data_with_extra_key': o.brief()[:150], 'from_data_sequence': o2.brief()[:150], 'into_data': o3.brief()[:150]},
                          mech='first-base-not-a-pane-class:options-lost')

    drive.for_each_case(ctx, 'plain-subclass', 40, body_plain_subclass_and_mixins, gen=lambda c, r: Ty('int'))

    # several generic bases: what one base binds stays with ITS fields (also when both bases use the same variable object), the
    # parameters forwarded to ANY base remain parameters of the class, in both base orders; and `G[None]` means NoneType
    def body_multi_base_generics(i, rng, ty, T):
        import types as _types
        import warnings as _warnings
        TA, TB = t.TypeVar('TA'), t.TypeVar('TB')
        n = next(_serial)

        def gcls(name, field, var):
            return _types.new_class(f"{name}{n}", (env.PaneBase, t.Generic[var]), {}, lambda ns: ns.update({'__annotations__': {field: var}, '__module__': __name__}))
        with _warnings.catch_warnings():
            _warnings.simplefilter('ignore')
            same_var = rng.random() < 0.5
            Stamped, Box = gcls('MStamped', 'stamp', TA), gcls('MBox', 'item', TA if same_var else TB)
            V = TA if same_var else TB
            Named = type(f"MNamed{n}", (env.PaneBase,), {'__annotations__': {'name': str}, '__module__': __name__})
            arg, good, bad = rng.choice(((str, 's', 5), (int, 5, 's'), (t.List[int], [1], ['a'])))
            kind = rng.choice(('bound-sibling-first', 'bound-sibling-second', 'plain-first', 'two-forwarded', 'none-argument', 'redeclared-by-sibling'))
            if kind in ('bound-sibling-first', 'bound-sibling-second'):
                bases = (Stamped[int], Box[V]) if kind == 'bound-sibling-first' else (Box[V], Stamped[int])
                mk = lambda: _types.new_class(f"MSB{n}", bases + (t.Generic[V],), {}, lambda ns: ns.update({'__annotations__': {}, '__module__': __name__}))[arg]
                rows = [({'stamp': 1, 'item': good}, True), ({'stamp': 1, 'item': bad}, False), ({'stamp': 'x', 'item': good}, False)]
            elif kind == 'redeclared-by-sibling':
                # Base[T]{item: T}; Counted(Base[T]); Listed(Base[T]) REDECLARES item: List[T]; class C(Counted[int], Listed[V]): the int bound
                # by the Counted branch is no business of the field Listed redeclared
                Base = gcls('MBase', 'item', TA)
                Counted = _types.new_class(f"MCounted{n}", (Base[TA], t.Generic[TA]), {}, lambda ns: ns.update({'__annotations__': {'count': int}, 'count': 0, '__module__': __name__}))
                Listed = _types.new_class(f"MListed{n}", (Base[TA], t.Generic[TA]), {}, lambda ns: ns.update({'__annotations__': {'item': t.List[TA]}, '__module__': __name__}))
                mk = lambda: _types.new_class(f"MRC{n}", (Counted[int], Listed[V], t.Generic[V]), {}, lambda ns: ns.update({'__annotations__': {}, '__module__': __name__}))[arg]
                rows = [({'item': [good]}, True), ({'item': [bad]}, False), ({'item': good}, False)]
            elif kind == 'plain-first':
                order = rng.choice(((Named, Box[V]), (Box[V], Named)))
                mk = lambda: type(f"MNB{n}", order, {'__annotations__': {}, '__module__': __name__})[arg]
                rows = [({'item': good, 'name': 'q'}, True), ({'item': bad, 'name': 'q'}, False), ({'item': good, 'name': 5}, False)]
            elif kind == 'two-forwarded':
                Tag = gcls('MTag', 'tag', TB if same_var else TA)
                W = TB if same_var else TA
                mk = lambda: type(f"MBoth{n}", (Box[V], Tag[W]), {'__annotations__': {}, '__module__': __name__})[arg, bool]
                rows = [({'item': good, 'tag': True}, True), ({'item': bad, 'tag': True}, False), ({'item': good, 'tag': 'no'}, False)]
            else:
                sub = rng.random() < 0.5
                mk = (lambda: type(f"MDone{n}", (Box[None],), {'__annotations__': {}, '__module__': __name__})) if sub else (lambda: Box[None])
                rows = [({'item': None}, True), ({'item': 1}, False), ({'item': 'x'}, False)]
            built = observe(mk)
            ctx.count('multi_base_generic_classes')
            ctx.case(('multi-base-generics', kind, same_var, built.kind), nontrivial=True)
            if built.kind != 'value':
                ctx.violation('type-variable-substitution', 'multi-base-generics', i, {'shape': kind, 'same_variable_object_in_both_bases': same_var, 'argument': short(arg, 40),
                                                                                  'class_creation_or_subscript': built.brief()[:250]}, mech=f"multi-base-generic-unusable:{kind}")
                return
            C = built.val
            for data, must in rows:
                o = observe(C.from_data, data)
                ctx.count('multi_base_generic_checks')
                if o.kind == 'escape' or (o.kind == 'value') != must:
                    ctx.violation('conversion-enforces-substituted-types', 'multi-base-generics', i,
                                  {'shape': kind, 'same_variable_object_in_both_bases': same_var, 'argument': short(arg, 40), 'data': short(data, 100), 'must_accept': must,
                                   'pane': o.brief()[:200], 'field_types': short({f.name: f.type for f in C.__pane_info__.fields}, 200)}, mech=f"multi-base-generic-wrong-field-type:{kind}")
                    return

    drive.for_each_case(ctx, 'multi-base-generics', 60, body_multi_base_generics, gen=lambda c, r: Ty('int'))

    # two DISTINCT generic classes that share module and qualified name (a class statement re-run, a class factory called twice, the
    # partial subscriptions Pair[T, int] / Pair[int, T]) subscripted with the same arguments one after the other: each subscription
    # belongs to ITS class - fields, order, constructor signature, options, substituted field types (round 11: a subscription cache
    # keyed by name instead of by class object)
    def body_same_name_generics(i, rng, ty, T):
        import inspect as _inspect
        import types as _types
        import warnings as _warnings
        TA, TB = t.TypeVar('TA'), t.TypeVar('TB')
        n = next(_serial)
        with _warnings.catch_warnings():
            _warnings.simplefilter('ignore')
            kind = rng.choice(('factory-twice', 'redefined-with-options', 'partial-subscriptions'))
            arg, good, bad = rng.choice(((str, 's', 5), (int, 5, 's'), (t.List[int], [1], ['a'])))
            if kind == 'partial-subscriptions':
                Pair = _types.new_class(f"SNPair{n}", (env.PaneBase, t.Generic[TA, TB]), {},
                                        lambda ns: ns.update({'__annotations__': {'first': TA, 'second': TB}, '__module__': __name__}))
                specs = [(lambda: Pair[TA, bool][arg], ['first', 'second'], {'first': good, 'second': True}, {'first': bad, 'second': True}, None),
                         (lambda: Pair[bool, TA][arg], ['first', 'second'], {'first': True, 'second': good}, {'first': True, 'second': bad}, None)]
            else:
                def factory(fields, **opts):
                    return _types.new_class(f"SNBox{n}", (env.PaneBase, t.Generic[TA]), opts,
                                            lambda ns: ns.update({'__annotations__': dict(fields), '__module__': __name__, '__qualname__': f"SNBox{n}"}))
                o1 = {} if kind == 'factory-twice' else {'out_format': 'tuple'}
                specs = [(lambda: factory([('item', TA), ('note', str)], **o1)[arg], ['item', 'note'], {'item': good, 'note': 'n'}, {'item': bad, 'note': 'n'}, o1),
                         (lambda: factory([('label', str), ('items', t.List[TA])])[arg], ['label', 'items'], {'label': 'l', 'items': [good]}, {'label': 'l', 'items': [bad]}, {})]
            if rng.random() < 0.5:
                specs.reverse()
            for step, (mk, names, ok_data, bad_data, opts) in enumerate(specs):
                built = observe(mk)
                ctx.count('same_name_generic_subscriptions')
                ctx.case(('same-name-generics', kind, step, built.kind), nontrivial=True)
                wit = {'shape': kind, 'step': step, 'argument': short(arg, 40), 'expected_fields': names}
                if built.kind != 'value':
                    ctx.violation('type-variable-substitution', 'same-name-generics', i, {**wit, 'subscript': built.brief()[:250]}, mech=f"same-name-generic-unusable:{kind}")
                    return
                C = built.val
                got = [f.name for f in C.__pane_info__.fields]
                sig = [p for p in _inspect.signature(C).parameters]
                if got != names or sig != names:
                    ctx.violation('field-order', 'same-name-generics', i, {**wit, 'fields': got, 'signature': sig}, mech=f"subscription-of-another-class-with-the-same-name:{kind}")
                    return
                for data, must in ((ok_data, True), (bad_data, False)):
                    o = observe(C.from_data, data)
                    ctx.count('same_name_generic_checks')
                    if o.kind == 'escape' or (o.kind == 'value') != must:
                        ctx.violation('conversion-enforces-substituted-types', 'same-name-generics', i,
                                      {**wit, 'data': short(data, 100), 'must_accept': must, 'pane': o.brief()[:200],
                                       'field_types': short({f.name: f.type for f in C.__pane_info__.fields}, 200)}, mech=f"same-name-generic-wrong-field-type:{kind}")
                        return
                if opts:
                    d = observe(lambda: C.from_data(ok_data).into_data())
                    if d.kind != 'value' or not isinstance(d.val, (list, tuple)):
                        ctx.violation('option-inheritance', 'same-name-generics', i, {**wit, 'options': opts, 'into_data': d.brief()[:200]},
                                      mech=f"same-name-generic-options-of-another-class:{kind}")
                        return

    drive.for_each_case(ctx, 'same-name-generics', 60, body_same_name_generics, gen=lambda c, r: Ty('int'))
