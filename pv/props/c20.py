"""C20 — field renaming yields canonical, reversible names (icontract contracts on the real rename_field)."""
import itertools
import re

from .. import env, drive
from ..common import observe
from ..ctx import short
from ..tyast import Ty, _serial

PLAN = {
    'quick': {'shards': 16, 'budget': 0},
    'thorough': {'shards': 64, 'budget': 30000, 'timeout': 7200},
}
LEVEL = 'exploration'
TECHNIQUE = "runtime contracts (icontract postconditions, named conditions) installed on both bindings of the real rename_field, evaluated on a complete enumeration of a small-alphabet name space, on malformed names, and on the calls pane itself makes while classes with rename options are created and used"
RULE = ("quick: complete enumeration of snake_case names with 1-3 words over words of length 2-3 from the alphabet {a, i, l} "
        "(36 + 36^2 + 36^3 = 47 988 names) x 5 styles: canonical spelling (postcondition), idempotence, reversibility to snake, "
        "cross-style consistency, per-style injectivity; all names up to length 6 over {a, _, -} with a leading/trailing/doubled "
        "separator must raise ValueError; end-to-end through classes with rename/in_rename/out_rename and dict(rename=). "
        "thorough adds sampled names with 1-5 words over the 26-letter alphabet incl. splitter-stressing words. "
        "distinct = (name shape (word lengths), style, law)")
ASSUMPTIONS = ["outside the statement's domain (digits, single-letter words, mixed-case input) nothing is asserted except that the contracts themselves are total"]
ANCHORS = ['field:rename_field', 'field:_split_field_name', 'field:Field.make' if False else 'field:FieldSpec.make_field', 'classes:PaneBase.dict']
EXHAUSTIVE_WHOLE = False
MIN_COUNTERS = {'quick': {'contract_evaluations': 200000, 'evaluations_via_pane.field': 1000, 'evaluations_via_pane.classes': 200,
                          'malformed_names_checked': 300, 'end_to_end_classes': 100, 'styled_attribute_dict_renames': 400,
                          'malformed_field_names_end_to_end': 1000}}

STYLES = ('snake', 'scream', 'kebab', 'camel', 'pascal')
DOMAIN = re.compile(r'^[a-z]{2,}(_[a-z]{2,})*$')


def canonical(name, style):
    """The statement's canonical spellings, written independently of pane."""
    w = name.split('_')
    if style == 'snake': return '_'.join(w)
    if style == 'scream': return '_'.join(x.upper() for x in w)
    if style == 'kebab': return '-'.join(w)
    if style == 'camel': return w[0] + ''.join(x[0].upper() + x[1:] for x in w[1:])
    if style == 'pascal': return ''.join(x[0].upper() + x[1:] for x in w)
    raise ValueError(style)


class PostBroken(Exception):
    pass


counts = {'total': 0, 'pane.field': 0, 'pane.classes': 0, 'direct': 0}
broken = []


def canonical_spelling(field, style, result):
    """Postcondition 1 (named condition for icontract)."""
    counts['total'] += 1
    if style is None:
        return result == field
    if DOMAIN.match(field) and style in STYLES:
        return result == canonical(field, style)
    return True


def contract_error(field, style, result):
    broken.append((field, style, result))
    return PostBroken(f"rename_field({field!r}, {style!r}) = {result!r}, canonical spelling is {canonical(field, style)!r}")


def install(ctx):
    """Wrap the function object once and rebind it under both module names (both bindings exist in pane)."""
    from ..setup import ensure_deps
    have = ensure_deps()
    import sys
    if have and env._deps not in sys.path:
        sys.path.append(env._deps)
    orig = env.m_field.rename_field
    if getattr(orig, '_pv_contract', False):
        return
    try:
        import icontract
        contracted = icontract.ensure(canonical_spelling, error=contract_error)(orig)
        ctx.mark('contract_library', f"icontract {getattr(icontract, '__version__', '?')}")
    except Exception as e:   # wheelhouse unavailable: same named postcondition, evaluated by a plain wrapper
        ctx.mark('contract_library', f"fallback wrapper ({type(e).__name__})")

        def contracted(field, style=None):
            result = orig(field, style)
            if not canonical_spelling(field, style, result):
                raise contract_error(field, style, result)
            return result

    def via(binding):
        def rename_field(field, style=None):
            counts[binding] += 1
            return contracted(field, style)
        rename_field._pv_contract = True
        return rename_field

    env.m_field.rename_field = via('pane.field')
    env.m_classes.rename_field = via('pane.classes')
    return via('direct')


def run(ctx):
    rename = install(ctx)

    def laws(name, sub, idx):
        """All laws for one in-domain name. Returns False after reporting the first refutation."""
        shape = tuple(len(w) for w in name.split('_'))
        outs = {}
        for st in STYLES:
            o = observe(rename, name, st)
            if o.kind != 'value':
                mech = 'canonical-spelling' if isinstance(o.exc, PostBroken) else f"raised-{type(o.exc).__name__}"
                ctx.violation('rename-laws', sub, idx, {'name': name, 'style': st, 'outcome': o.brief()}, mech=f"{mech}:{st}")
                return False
            outs[st] = o.val
            ctx.case((shape, st, 'canonical'))
        for st, r in outs.items():
            again = observe(rename, r, st)
            if again.kind != 'value' or again.val != r:
                ctx.violation('rename-laws', sub, idx, {'name': name, 'style': st, 'styled': r, 'reapplied': again.brief()}, mech=f"idempotence:{st}")
                return False
            back = observe(rename, r, 'snake')
            if back.kind != 'value' or back.val != name:
                ctx.violation('rename-laws', sub, idx, {'name': name, 'style': st, 'styled': r, 'back_to_snake': back.brief()}, mech=f"reversibility:{st}")
                return False
            for st2 in STYLES:
                x = observe(rename, r, st2)
                if x.kind != 'value' or x.val != outs[st2]:
                    ctx.violation('rename-laws', sub, idx, {'name': name, 'from': st, 'to': st2, 'via': r, 'got': x.brief(), 'direct': outs[st2]},
                                  mech=f"cross-style:{st}->{st2}")
                    return False
            prev = seen[st].setdefault(r, name)
            if prev != name:
                ctx.violation('rename-laws', sub, idx, {'style': st, 'names': [prev, name], 'both_become': r}, mech=f"injectivity:{st}")
                return False
        ctx.count('names_checked')
        return True

    seen = {st: {} for st in STYLES}
    # ---- complete enumeration over a small alphabet ----------------------------------------------------------------------------
    words = [''.join(p) for n in (2, 3) for p in itertools.product('ail', repeat=n)]
    # (single words of 4-6 letters that are the concatenation of two enumerated words come first, in the same process as
    # their two-word counterparts: 'aiai' and 'ai_ai' only differ where a style keeps the boundary in letter case)
    long_words = sorted({a + b for a in words for b in words})
    names = itertools.chain(words, ('_'.join(p) for p in itertools.product(words, repeat=2)), ('_'.join(p) for p in itertools.product(words, repeat=3)))
    for li, lw in enumerate(long_words):
        if li % ctx.nshards != ctx.shard:
            continue
        a_b = [f"{lw[:k]}_{lw[k:]}" for k in (2, 3) if len(lw) - k in (2, 3)]
        for nm in ([lw] + a_b) if li % 2 == 0 else (a_b + [lw]):
            if not laws(nm, 'joined', li):
                break
    for idx, name in enumerate(names):
        if idx % ctx.nshards != ctx.shard or not ctx.want('enum', idx):
            continue
        try:
            if not laws(name, 'enum', idx):
                break
        except Exception as e:
            ctx.crash('enum', idx, e)
    ctx.exhaustive['names of 1-3 words (length 2-3) over {a,i,l} x 5 styles'] = True

    # ---- names that cannot be split into words are refused --------------------------------------------------------------------
    bad_idx = 0
    for n in range(1, 7):
        for p in itertools.product('a_-', repeat=n):
            s = ''.join(p)
            malformed = s[0] in '_-' or s[-1] in '_-' or any(a in '_-' and b in '_-' for a, b in zip(s, s[1:]))
            if not malformed:
                continue
            bad_idx += 1
            if bad_idx % ctx.nshards != ctx.shard or not ctx.want('malformed', bad_idx):
                continue
            st = STYLES[bad_idx % 5]
            o = observe(rename, s, st)
            ctx.count('malformed_names_checked')
            ctx.case((n, st, 'malformed', o.kind))
            if o.kind != 'escape' or not isinstance(o.exc, ValueError):
                ctx.violation('malformed-names-refused', 'malformed', bad_idx, {'name': s, 'style': st, 'outcome': o.brief()}, mech=f"malformed-accepted:{st}")
                break
    import keyword as _keyword
    # (names ending in a separator are refused whatever stands before it - also the PEP 8 spelling of a keyword, `class_`, `from_`)
    kw_names = [k + '_' for k in _keyword.kwlist if k.islower()] + ['_' + k for k in ('class', 'in', 'from')] + ['my_class_', 'is_not_']
    for extra in ('ab__cd', 'ab_-cd', 'ab--cd', '_ab', 'ab_', '-ab', 'ab-', 'ab_cd__ef', 'ab-_cd', '__', '_', 'ab_cd_', 'ab___cd') + tuple(kw_names):
        for st in STYLES:
            o = observe(rename, extra, st)
            ctx.count('malformed_names_checked')
            if o.kind != 'escape' or not isinstance(o.exc, ValueError):
                ctx.violation('malformed-names-refused', 'malformed', -1, {'name': extra, 'style': st, 'outcome': o.brief()}, mech=f"malformed-accepted:{st}")

    # ---- end to end: the calls pane itself makes ---------------------------------------------------------------------------------
    pool = ('my_field', 'id_num', 'url_path', 'ab_cd', 'alpha', 'some_long_name', 'il_li', 'ii_ll', 'ai_la_il')
    for k in range(12):
        rng = ctx.rng('e2e', k)
        fields = rng.sample(pool, rng.choice((1, 2, 3)))
        for st in STYLES:
            which = rng.choice(('rename', 'in_rename', 'out_rename', 'both'))
            opts = {'rename': {'rename': st}, 'in_rename': {'in_rename': st}, 'out_rename': {'out_rename': st},
                    'both': {'in_rename': (st, STYLES[(STYLES.index(st) + 1) % 5]), 'out_rename': st}}[which]
            mk = observe(lambda: type(f"R{next(_serial)}", (env.PaneBase,), {'__annotations__': {f: int for f in fields}, '__module__': __name__}, **opts))
            ctx.count('end_to_end_classes')
            ctx.case(('e2e', which, st, len(fields)))
            if mk.kind != 'value':
                ctx.violation('rename-laws', 'e2e', k, {'fields': fields, 'options': opts, 'class_creation': mk.brief()}, mech=f"e2e-class-creation:{st}")
                continue
            cls = mk.val
            inst = cls(*range(len(fields)))
            out_style = opts.get('rename') or opts.get('out_rename')
            d = inst.into_data()
            want = [canonical(f, out_style) if out_style else f for f in fields]
            if list(d.keys()) != want:
                ctx.violation('rename-laws', 'e2e', k, {'fields': fields, 'options': opts, 'into_data_keys': list(d.keys()), 'canonical': want}, mech=f"e2e-output-names:{st}")
                continue
            in_styles = [opts['rename']] if 'rename' in opts else ([opts['in_rename']] if isinstance(opts.get('in_rename'), str) else list(opts.get('in_rename', ())))
            for ist in in_styles:
                data = {canonical(f, ist): i for i, f in enumerate(fields)}
                r = observe(cls.from_data, data)
                if r.kind != 'value' or r.val != inst:
                    ctx.violation('rename-laws', 'e2e', k, {'fields': fields, 'options': opts, 'data': data, 'outcome': r.brief()}, mech=f"e2e-input-names:{ist}")
            dd = observe(inst.dict, rename=st)
            if dd.kind != 'value' or list(dd.val.keys()) != [canonical(f, st) for f in fields]:
                ctx.violation('rename-laws', 'e2e', k, {'fields': fields, 'style': st, 'dict(rename=)': dd.brief()}, mech=f"e2e-dict-rename:{st}")
            # a subclass choosing another style (snake included: it is a style like the others, not "no renaming") gets ITS spellings
            for st2 in STYLES:
                if st2 == st or 'rename' not in opts:
                    continue
                mk2 = observe(lambda: type(f"R{next(_serial)}", (cls,), {'__module__': __name__}, rename=st2))
                ctx.count('end_to_end_subclasses')
                if mk2.kind != 'value':
                    ctx.violation('rename-laws', 'e2e', k, {'fields': fields, 'parent_style': st, 'child_style': st2, 'class_creation': mk2.brief()}, mech=f"e2e-subclass-creation:{st}>{st2}")
                    continue
                sub_inst = mk2.val(*range(len(fields)))
                d2 = observe(sub_inst.into_data)
                want2 = [canonical(f, st2) for f in fields]
                if d2.kind != 'value' or list(d2.val.keys()) != want2:
                    ctx.violation('rename-laws', 'e2e', k, {'fields': fields, 'parent_style': st, 'child_style': st2, 'into_data': d2.brief(), 'canonical': want2},
                                  mech=f"e2e-subclass-output-names:{st}>{st2}")
                    continue
                r2 = observe(mk2.val.from_data, {n: i for i, n in enumerate(want2)})
                if r2.kind != 'value' or r2.val != sub_inst:
                    ctx.violation('rename-laws', 'e2e', k, {'fields': fields, 'parent_style': st, 'child_style': st2, 'outcome': r2.brief()}, mech=f"e2e-subclass-input-names:{st}>{st2}")

    # ---- fields with names of their own beside styled ones: an explicit out_name / explicit in_names do not leak into the styling
    # of the field's NAME (dict(rename=) restyles names; the class's output style restyles the name of a field with explicit in_names)
    for k in range(6):
        rng = ctx.rng('e2e-explicit', k)
        f0, f1, f2 = rng.sample(pool, 3)
        for st in STYLES:
            opts = rng.choice(({'rename': st}, {'out_rename': st}, {'out_rename': st, 'in_rename': st}))
            ns = {'__annotations__': {f0: int, f1: int, f2: int}, '__module__': __name__,
                  f1: env.pfield(out_name='uid'), f2: env.pfield(in_names=('retries', 'r2'))}
            mk = observe(lambda: type(f"RX{next(_serial)}", (env.PaneBase,), ns, **opts))
            ctx.count('end_to_end_explicit_name_classes')
            if mk.kind != 'value':
                ctx.violation('rename-laws', 'e2e', k, {'fields': [f0, f1, f2], 'options': opts, 'class_creation': mk.brief()}, mech=f"e2e-explicit-class-creation:{st}")
                continue
            inst = mk.val(1, 2, 3)
            d = observe(inst.into_data)
            want = [canonical(f0, st), 'uid', canonical(f2, st)]
            if d.kind != 'value' or list(d.val.keys()) != want:
                ctx.violation('rename-laws', 'e2e', k, {'fields': [f0, f1 + ' (out_name=uid)', f2 + ' (in_names=retries, r2)'], 'options': opts, 'into_data': d.brief(),
                                                        'expected_keys': want}, mech=f"e2e-explicit-output-names:{st}")
                continue
            for st2 in STYLES:
                dd = observe(inst.dict, rename=st2)
                want2 = [canonical(f, st2) for f in (f0, f1, f2)]
                if dd.kind != 'value' or list(dd.val.keys()) != want2:
                    ctx.violation('rename-laws', 'e2e', k, {'fields': [f0, f1 + ' (out_name=uid)', f2 + ' (in_names=retries, r2)'], 'options': opts, 'style': st2,
                                                            'dict(rename=)': dd.brief(), 'expected_keys': want2}, mech=f"e2e-explicit-dict-rename:{st}>{st2}")
                    break

    # ---- styles meeting aliases, set-only views and multiple inheritance ----------------------------------------------------------
    for k in range(6):
        rng = ctx.rng('e2e-seams', k)
        f0, f1 = rng.sample([p_ for p_ in pool if '_' in p_], 2)
        for st in STYLES:
            ins = rng.choice(((st,), (st, STYLES[(STYLES.index(st) + 2) % 5]), ('snake', st)))
            ns = {'__annotations__': {f0: int, f1: int}, '__module__': __name__, f1: env.pfield(default=7, aliases=('fn', 'f-n'))}
            mk = observe(lambda: type(f"RS{next(_serial)}", (env.PaneBase,), ns, in_rename=ins, out_rename=st))
            ctx.count('end_to_end_seam_classes')
            if mk.kind != 'value':
                ctx.violation('rename-laws', 'e2e', k, {'fields': [f0, f1], 'in_rename': ins, 'class_creation': mk.brief()}, mech=f"e2e-seam-class-creation:{st}")
                continue
            cls = mk.val
            # a field WITH aliases still answers to its own name in every input style, and to its aliases
            for ist in ins:
                for key1 in (canonical(f1, ist), 'fn', 'f-n'):
                    r = observe(cls.from_data, {canonical(f0, ist): 1, key1: 2})
                    if r.kind != 'value' or getattr(r.val, f1) != 2:
                        ctx.violation('rename-laws', 'e2e', k, {'fields': [f0, f1 + " (aliases 'fn', 'f-n')"], 'in_rename': ins, 'key': key1, 'outcome': r.brief()},
                                      mech=f"e2e-aliased-field-own-name:{ist}")
                        break
            # set-only view in another style: exactly the fields that were given, under their restyled names
            inst = cls(1)
            for st2 in STYLES:
                dd = observe(inst.dict, set_only=True, rename=st2)
                if dd.kind != 'value' or list(dd.val.keys()) != [canonical(f0, st2)]:
                    ctx.violation('rename-laws', 'e2e', k, {'fields': [f0, f1], 'given': [f0], 'style': st2, 'dict(set_only, rename)': dd.brief()}, mech=f"e2e-set-only-rename:{st2}")
                    break
            # a subclass listing a plain mixin FIRST still inherits the styled parent's options
            mixin = type('PlainMixin', (), {'helper': lambda self: 1})
            mk3 = observe(lambda: type(f"RM{next(_serial)}", (mixin, cls), {'__annotations__': {'zz_new': int}, 'zz_new': 0, '__module__': __name__}))
            if mk3.kind == 'value':
                d3 = observe(mk3.val(1).into_data)
                want3 = [canonical(f0, st), canonical(f1, st), canonical('zz_new', st)]
                if d3.kind != 'value' or list(d3.val.keys()) != want3:
                    ctx.violation('rename-laws', 'e2e', k, {'bases': ['PlainMixin', 'styled parent'], 'style': st, 'into_data': d3.brief(), 'expected_keys': want3},
                                  mech=f"e2e-mixin-first-loses-style:{st}")
            else:
                ctx.violation('rename-laws', 'e2e', k, {'bases': ['PlainMixin', 'styled parent'], 'class_creation': mk3.brief()}, mech='e2e-mixin-first-class-creation')

    # ---- attribute names that are themselves styled (mirroring an external schema); names that cannot be split, at every place
    # pane itself renames: the class statement (rename / in_rename / out_rename) and dict(rename=), 'snake' included
    ATTR_STYLES = ('snake', 'scream', 'camel', 'pascal')
    for k in range(6):
        rng = ctx.rng('e2e-styled-attrs', k)
        words = rng.sample([p_ for p_ in pool if '_' in p_], 3)
        attrs = [canonical(w, rng.choice(ATTR_STYLES)) for w in words]
        if len(set(attrs)) != 3:
            continue
        mk = observe(lambda: type(f"RA{next(_serial)}", (env.PaneBase,), {'__annotations__': {a: int for a in attrs}, '__module__': __name__}))
        ctx.count('end_to_end_styled_attribute_classes')
        if mk.kind != 'value':
            ctx.violation('rename-laws', 'e2e', k, {'fields': attrs, 'class_creation': mk.brief()}, mech='e2e-styled-attrs-class-creation')
            continue
        inst = mk.val(1, 2, 3)
        for st2 in STYLES:
            want = [canonical(w, st2) for w in words]
            for set_only in (False, True):
                dd = observe(inst.dict, set_only=set_only, rename=st2)
                ctx.count('styled_attribute_dict_renames')
                # (the set-only view is built from a set: its key order is not part of any promise)
                if dd.kind != 'value' or (sorted(dd.val.keys()) != sorted(want) if set_only else list(dd.val.keys()) != want):
                    ctx.violation('rename-laws', 'e2e', k, {'fields': attrs, 'style': st2, 'set_only': str(set_only), 'dict(rename=)': dd.brief(), 'expected_keys': want},
                                  mech=f"e2e-styled-attrs-dict-rename:{st2}")
                    break
            mk2 = observe(lambda: type(f"RA{next(_serial)}", (mk.val,), {'__module__': __name__}, rename=st2))
            d2 = observe(lambda: mk2.val(1, 2, 3).into_data()) if mk2.kind == 'value' else mk2
            if d2.kind != 'value' or list(d2.val.keys()) != want:
                ctx.violation('rename-laws', 'e2e', k, {'fields': attrs, 'child_style': st2, 'into_data': d2.brief(), 'expected_keys': want}, mech=f"e2e-styled-attrs-subclass:{st2}")
    for bad in ('foo__bar', 'foo_', '_foo', 'ab___cd', 'ab_cd__ef'):
        plain = type(f"RB{next(_serial)}", (env.PaneBase,), {'__annotations__': {bad: int, 'fine_name': int}, bad: 0, 'fine_name': 1, '__module__': __name__})
        for st in STYLES:
            for set_only in (False, True):
                o = observe(plain(**{bad: 1}).dict, set_only=set_only, rename=st)
                ctx.count('malformed_names_checked')
                ctx.count('malformed_field_names_end_to_end')
                if o.kind != 'escape' or not isinstance(o.exc, ValueError):
                    ctx.violation('malformed-names-refused', 'malformed', -1, {'field': bad, 'call': f"dict(set_only={set_only}, rename={st!r})", 'outcome': o.brief()},
                                  mech=f"malformed-field-name-not-refused-with-ValueError:dict:{st}")
            for opts in ({'rename': st}, {'out_rename': st}, {'in_rename': st}, {'in_rename': ('snake', st)}):
                o = observe(lambda: type(f"RB{next(_serial)}", (env.PaneBase,), {'__annotations__': {'fine_name': int, bad: int}, '__module__': __name__}, **opts))
                ctx.count('malformed_names_checked')
                ctx.count('malformed_field_names_end_to_end')
                if o.kind != 'escape' or not isinstance(o.exc, ValueError):
                    ctx.violation('malformed-names-refused', 'malformed', -1, {'field': bad, 'class_options': str(opts), 'outcome': o.brief()},
                                  mech=f"malformed-field-name-not-refused-with-ValueError:class:{'/'.join(opts)}")

    # ---- thorough: sampled names over the whole alphabet -------------------------------------------------------------------------
    if ctx.tier == 'thorough':
        special = ('ii', 'll', 'id', 'url', 'abb', 'io', 'ss', 'ij', 'lj', 'nj', 'dz', 'ffi', 'fl', 'st', 'ae', 'oe', 'mc', 'mac', 'von', 'de', 'la')
        letters = 'abcdefghijklmnopqrstuvwxyz'
        for i in range(ctx.budget):
            if not ctx.want('sampled', i):
                continue
            rng = ctx.rng('sampled', i)
            ws = []
            for _ in range(rng.choice((1, 2, 3, 4, 5))):
                ws.append(rng.choice(special) if rng.random() < 0.3 else ''.join(rng.choice(letters) for _ in range(rng.choice((2, 3, 4, 7)))))
            try:
                if not laws('_'.join(ws), 'sampled', i):
                    break
            except Exception as e:
                ctx.crash('sampled', i, e)

    for name, style, result in broken[:3]:
        ctx.mark('contract_failures', f"{name}/{style} -> {result}")
    ctx.count('contract_evaluations', counts['total'])
    ctx.count('evaluations_via_pane.field', counts['pane.field'])
    ctx.count('evaluations_via_pane.classes', counts['pane.classes'])
    ctx.count('evaluations_direct', counts['direct'])
