"""C13 — conditions restrict exactly by their predicate."""
import math
import typing as t

from .. import env, genval, drive
from ..common import observe, build_type
from ..ctx import short
from ..deepeq import deep_typed_eq
from ..tyast import Ty, FieldM, ClassM, describe, build, _serial
from .. import conds as C

PLAN = {
    'quick': {'shards': 16, 'budget': 1200},
    'thorough': {'shards': 64, 'budget': 20000, 'timeout': 7200},
}
LEVEL = 'exploration'
TECHNIQUE = "runtime monitoring: each condition expression is generated together with an independent plain-Python predicate; acceptance, returned value, error-node class/cause and serialisation of every conversion are compared with it (inner acceptance from the real unconditioned type)"
RULE = ("condition-expression ASTs (stock conditions, val_range/len_range with thresholds from a small pool, user predicates that "
        "return objects or raise, combined by & | ~ Condition.all/any to depth 4, 1-3 conditions per annotation, stacked "
        "Annotated) over inner types int/float/Fraction/Decimal/int-subclass/str/bytes/List/Seq/Set/Dict/ndarray, values on and "
        "around every threshold (m-1, m, m+1, nextafter, -0.0, inf, nan, 10**400, bool), lengths min-1..max+1, array shapes around "
        "the target; placed at top level, as container element, mapping value, tuple slot, Optional member and dataclass field; "
        "plus the aliases of pane.types. distinct = (expression shape, inner kind, value class, verdict)")
ASSUMPTIONS = ["the harness predicates in pv/conds.py are the reading of 'behave as the corresponding Boolean and arithmetic predicates' (Python semantics incl. NaN and short-circuit order)"]
ANCHORS = ['annotations:Condition.__and__', 'annotations:Condition.__or__', 'annotations:Condition.__invert__',
           'annotations:Condition.all', 'annotations:Condition.any', 'annotations:val_range', 'annotations:len_range',
           'annotations:shape', 'annotations:broadcastable', 'annotations:Condition._converter',
           'converters:ConditionalConverter.try_convert', 'converters:ConditionalConverter.collect_errors',
           'converters:ConditionalConverter.into_data', 'convert:_annotated_converter']
MIN_COUNTERS = {'quick': {'equal_value_sequence_calls': 2000, 'checked': 40000, 'accepted': 8000, 'rejected_by_condition': 8000, 'rejected_by_inner': 2000,
                          'predicate_raised': 2000, 'boundary_values': 5000, 'serialise_checked': 8000, 'multi_condition_annotations': 3000, 'same_name_condition_annotations': 300, 'mutated_between_calls_checked': 200}}

E = env.m_errors
THRESH = (0, 1, 5, -3, 2.5, 10, float('inf'), float('-inf'))     # (bounds that come from parameters defaulting to -inf / +inf)


def gen_leaf(rng, fam):
    ch = rng.choice
    if fam == 'num' and rng.random() < 0.04:
        return {'op': ch(('empty', 'nonempty'))}      # a length condition on a number: the predicate raises, which is a failed condition
    if fam == 'len' and rng.random() < 0.04:
        return {'op': ch(('positive', 'nonneg', 'finite'))}
    if fam == 'num':
        k = ch(('positive', 'negative', 'nonneg', 'nonpos', 'finite', 'val_range', 'val_range', 'val_range', 'user'))
        if k == 'val_range':
            lo, hi = ch((None,) + THRESH), ch((None,) + THRESH)
            if lo is None and hi is None:
                lo = 0
            return {'op': 'val_range', 'min': lo, 'max': hi}
        if k == 'user':
            spec = {'op': 'user', 'fn': ch(('even', 'small', 'boom', 'keyerr', 'always', 'never', 'truthy', 'returns_obj'))}
            if rng.random() < 0.4:
                spec['label'] = ch(('valid', 'chk'))    # different predicates published under one human-readable name
            return spec
        return {'op': k}
    if fam == 'len':
        k = ch(('empty', 'nonempty', 'len_range', 'len_range', 'user'))
        if k == 'len_range':
            lo, hi = ch((None, 0, 1, 2, 3)), ch((None, 0, 1, 2, 3))
            if lo is None and hi is None:
                hi = 2
            return {'op': 'len_range', 'min': lo, 'max': hi}
        if k == 'user':
            return {'op': 'user', 'fn': ch(('truthy', 'boom', 'always', 'never', 'returns_obj'))}
        return {'op': k}
    k = ch(('shape', 'broadcastable', 'shape', 'user', 'positive', 'nonneg', 'val_range', 'empty', 'nonempty', 'len_range'))
    if k in ('positive', 'nonneg', 'empty', 'nonempty'):
        return {'op': k}        # Empty / NonEmpty / len_range on an array count its first axis, whatever its truth value would be
    if k == 'len_range':
        return {'op': 'len_range', 'min': ch((None, 0, 1, 2)), 'max': ch((1, 2, 3))}
    if k == 'val_range':
        return {'op': 'val_range', 'min': ch((None, 0, 1)), 'max': ch((2.5, 10))}
    if k == 'user':
        return {'op': 'user', 'fn': ch(('always', 'never', 'boom'))}
    return {'op': k, 'shape': ch(((2, 2), (2,), (3,), (1, 2), (2, 1), (), (0,), (2, 3))), 'as_list': rng.random() < 0.3}


def gen_expr(rng, fam, depth):
    if depth <= 0 or rng.random() < 0.45:
        return gen_leaf(rng, fam)
    op = rng.choice(('and', 'or', 'not', 'all', 'any'))
    if op == 'not':
        return {'op': 'not', 'kid': gen_expr(rng, fam, depth - 1)}
    return {'op': op, 'kids': [gen_expr(rng, fam, depth - 1) for _ in range(rng.choice((2, 2, 3)))]}


def shape_of(spec):
    if 'kids' in spec:
        return f"{spec['op']}({','.join(shape_of(k) for k in spec['kids'])})"
    if 'kid' in spec:
        return f"not({shape_of(spec['kid'])})"
    return spec['op'] + (':' + spec['fn'] if spec['op'] == 'user' else '')


INNER = {
    'num': (lambda r: Ty('int'), lambda r: Ty('float'), lambda r: Ty('fraction'), lambda r: Ty('decimal'), lambda r: Ty('sub', base='int'),
            lambda r: Ty('union', [Ty('int'), Ty('float')]),
            # Optional inner types: None is a value like any other - the condition is asked about it (and usually raises: a failed condition)
            lambda r: Ty('union', [Ty('int'), Ty('none')]), lambda r: Ty('union', [Ty('none'), Ty('float'), Ty('str')])),
    'len': (lambda r: Ty('str'), lambda r: Ty('bytes'), lambda r: Ty('list', [Ty('int')]), lambda r: Ty('seq', [Ty('int')]),
            lambda r: Ty('set', [Ty('int')], res='set'), lambda r: Ty('dict', [Ty('str'), Ty('int')]), lambda r: Ty('list', [Ty('any')])),
    'arr': (lambda r: Ty('ndarray', dtype='float'), lambda r: Ty('ndarray', dtype='int')),
}


def num_values(rng, specs):
    pool = set()
    def walk(s):
        for kk in ('min', 'max'):
            if s.get(kk) is not None:
                pool.add(s[kk])
        for k in s.get('kids', ()):
            walk(k)
        if 'kid' in s:
            walk(s['kid'])
    for s in specs:
        walk(s)
    pool |= {0, 10}
    vals = []
    for m in pool:
        vals += [m - 1, m, m + 1, math.nextafter(m, math.inf), math.nextafter(m, -math.inf)]
    vals += [-0.0, float('inf'), float('-inf'), float('nan'), True, False, 10 ** 400, 4, 7, '5', None, '1/3', 2.5, [1]]
    return vals


def len_values(rng):
    out = []
    for n in (0, 1, 2, 3, 4):
        out += ['x' * n, list(range(n)), tuple(range(n)), {str(i): i for i in range(n)}, b'y' * n, [1] * n]
    out += [5, None, [1, 'a'], {'a': 'b'}]
    return out


def arr_values(rng):
    def mk(sh, leaf=1.5):
        if not sh:
            return leaf
        return [mk(sh[1:], leaf) for _ in range(sh[0])]
    out = [mk(sh) for sh in ((), (0,), (1,), (2,), (3,), (2, 2), (1, 2), (2, 1), (2, 3), (1, 1), (2, 2, 2))]
    out += [mk((2, 2), 1), 'x', [[1, 2], [3]], None]
    return out


def run(ctx):
    def direct(i, sub, inner_ty, specs, T_inner, T_cond, v, boundary=False):
        """Oracle for one conversion of v to Annotated[inner, *specs]. Returns the verdict ('accept'|'inner'|'cond'|'raised')."""
        base = observe(env.from_data, v, T_inner)
        out = observe(env.from_data, v, T_cond)
        ctx.count('checked')
        if boundary:
            ctx.count('boundary_values')
        if len(specs) > 1:
            ctx.count('multi_condition_annotations')
        wit = {'inner': describe(inner_ty), 'conditions': [C.name_of(s) for s in specs], 'value': short(v, 120),
               'unconditioned': base.brief()[:150], 'pane': out.brief()[:300]}
        if base.kind == 'escape' or out.kind == 'escape':
            if out.kind == 'escape':
                ctx.violation('condition-semantics', sub, i, wit, mech=f"escape:{type(out.exc).__name__}")
            return None
        if base.kind != 'value':
            verdict = 'inner'
        else:
            verdict = 'accept'
            for s in specs:
                try:
                    ok = bool(C.pred(s)(base.val))
                except Exception as e:
                    verdict, wit['predicate_raised'] = 'raised', f"{type(e).__name__}: {short(str(e), 80)}"
                    break
                if not ok:
                    verdict = 'cond'
                    break
        wit['expected'] = verdict
        ctx.count({'accept': 'accepted', 'inner': 'rejected_by_inner', 'cond': 'rejected_by_condition', 'raised': 'predicate_raised'}[verdict])
        ctx.case((tuple(shape_of(s) for s in specs), inner_ty.k, genval.skeleton(v, 2), verdict),
                 sample={'inner': describe(inner_ty), 'conditions': [C.name_of(s) for s in specs], 'value': short(v, 60), 'verdict': verdict})
        if verdict == 'accept':
            if out.kind != 'value':
                ctx.violation('condition-semantics', sub, i, wit, mech='rejected-although-predicate-holds')
            elif not deep_typed_eq(base.val, out.val)[0]:
                ctx.violation('accepted-value-unchanged', sub, i, wit, mech='value-changed-by-condition')
        else:
            if out.kind == 'value':
                ctx.violation('condition-semantics', sub, i, wit, mech=f"accepted-although-{verdict}")
            elif verdict == 'raised':
                node = out.exc.tree
                if not isinstance(node, E.ConditionFailedError) or node.cause is None:
                    wit['tree'] = short(node, 300)
                    ctx.violation('raising-predicate-carries-cause', sub, i, wit, mech='cause-not-carried')
            elif verdict == 'cond':
                node = out.exc.tree
                if not isinstance(node, E.ConditionFailedError):
                    wit['tree'] = short(node, 300)
                    ctx.violation('condition-semantics', sub, i, wit, mech='failed-condition-node-class')
        # serialisation ignores conditions (also for values violating them)
        if base.kind == 'value':
            a = observe(env.into_data, base.val, T_cond)
            b = observe(env.into_data, base.val, T_inner)
            ctx.count('serialise_checked')
            if a.kind != b.kind or (a.kind == 'value' and not deep_typed_eq(b.val, a.val)[0]):
                ctx.violation('serialisation-ignores-conditions', sub, i, {**wit, 'with_condition': a.brief(), 'without': b.brief()},
                              mech='into_data-differs')
            # ... and goes by the DECLARED inner type, not by what the value happens to be: the raw input (an int for a float type,
            # a list for a set type) is written as the inner type writes it
            a2 = observe(env.into_data, v, T_cond)
            b2 = observe(env.into_data, v, T_inner)
            ctx.count('serialise_checked')
            if a2.kind != b2.kind or (a2.kind == 'value' and not deep_typed_eq(b2.val, a2.val)[0]):
                ctx.violation('serialisation-ignores-conditions', sub, i, {**wit, 'raw_value_with_condition': a2.brief(), 'raw_value_without': b2.brief()},
                              mech='into_data-differs:raw-value')
        return verdict

    def body(i, rng, ty, T):
        fam = rng.choice(('num', 'num', 'len', 'len', 'arr'))
        inner_ty = rng.choice(INNER[fam])(rng)
        n = rng.choice((1, 1, 2, 3))
        specs = [C.with_names(gen_expr(rng, fam, rng.choice((0, 1, 2, 3)))) for _ in range(n)]
        if fam in ('num', 'len') and rng.random() < 0.12:
            # directed: two or three DIFFERENT predicates published under one name, side by side in one annotation
            pool = ('even', 'small', 'always', 'never', 'truthy', 'boom') if fam == 'num' else ('truthy', 'always', 'never', 'boom')
            lab = rng.choice(('valid', 'chk'))
            specs = [C.with_names({'op': 'user', 'fn': fn, 'label': lab}) for fn in rng.sample(pool, rng.choice((2, 2, 3)))]
            ctx.count('same_name_condition_annotations')
        cond_ty = Ty('cond', [inner_ty], conds=specs, stacked=rng.random() < 0.3)
        T_inner, e1 = build_type(inner_ty)
        T_cond, e2 = build_type(cond_ty)
        if e1 is not None or e2 is not None:
            ctx.count('type_build_failed')
            ctx.mark('type_build_errors', str(e1 or e2)[:100])
            return
        vals = {'num': num_values(rng, specs), 'len': len_values(rng), 'arr': arr_values(rng)}[fam]
        rng.shuffle(vals)
        verdicts = []
        for v in vals[:14]:
            verdicts.append((v, direct(i, 'main', inner_ty, specs, T_inner, T_cond, v, boundary=True)))
        # nested placements: the container accepts iff every element does
        good = [v for v, vd in verdicts if vd == 'accept']
        bad = [v for v, vd in verdicts if vd in ('cond', 'raised', 'inner')]
        place = rng.choice(('list', 'dictval', 'tuple', 'optional', 'field', 'seq'))
        for elems in ((good[:2], True), (good[:1] + bad[:1], False), (bad[:1], False)):
            items, expect = elems
            if not items or (expect is False and not bad):
                continue
            if place in ('list', 'seq'):
                nty, nv = Ty(place, [cond_ty]), list(items)
            elif place == 'dictval':
                nty, nv = Ty('dict', [Ty('str'), cond_ty]), {f"k{j}": x for j, x in enumerate(items)}
            elif place == 'tuple':
                nty, nv = Ty('tup', [Ty('str'), cond_ty]), ['s', items[-1]]
                expect = items[-1] in good if items[-1] == items[-1] else expect
            elif place == 'optional':
                nty, nv = Ty('union', [cond_ty, Ty('none')]), items[-1]
                if nv is None:
                    continue
            else:
                nty = Ty('dc', spec=ClassM(f"K{next(_serial)}", [FieldM('inner_val', cond_ty)], {}))
                nv = {'inner_val': items[-1]}
            if place in ('tuple', 'optional', 'field'):
                expect = any(items[-1] is g for g in good)
            NT, err = build_type(nty)
            if err is not None:
                continue
            out = observe(env.from_data, nv, NT)
            ctx.count('nested_checked')
            ctx.case(('nested', place, expect, out.kind))
            if out.kind == 'escape' or (out.kind == 'value') != expect:
                ctx.violation('condition-semantics-nested', 'main', i,
                              {'type': describe(nty), 'value': short(nv, 200), 'expected_accept': expect, 'pane': out.brief()},
                              mech=f"nested-{place}")

    drive.for_each_case(ctx, 'main', ctx.budget, body, gen=lambda c, r: Ty('int'))

    # the SAME Annotated alias object converted under different custom handlers (call-level, class-level, none), in any order:
    # the condition is checked each time and the handlers are those of the call at hand
    def body_handlers(i, rng, ty, T):
        from . import c18
        PT = env.m_types
        alias = rng.choice((PT.PositiveInt, PT.NonNegativeInt, t.Annotated[int, C.build_cond({'op': 'val_range', 'min': 0, 'max': 10})]))
        holder = type(f"KC{next(_serial)}", (env.PaneBase,), {'__annotations__': {'n': alias}, '__module__': __name__}, custom={int: c18.StampConv('class')})
        uses = [('plain', lambda v: env.from_data(v, alias), None), ('call', lambda v: env.from_data(v, alias, custom={int: c18.StampConv('call')}), 'call'),
                ('class', lambda v: holder.from_data({'n': v}).n, 'class'), ('list-plain', lambda v: env.from_data([v], t.List[alias])[0], None),
                ('list-call', lambda v: env.from_data([v], t.List[alias], custom={int: c18.StampConv('call')})[0], 'call')]
        seq = [rng.choice(uses) for _ in range(rng.randint(3, 7))]
        for step, (name, call, stamp) in enumerate(seq):
            for v, ok in ((5, True), (-3, False)):
                o = observe(call, v)
                ctx.count('handler_context_uses')
                ctx.case(('cond-x-handlers', name, ok, o.kind), nontrivial=True)
                wit = {'alias': short(alias, 120), 'uses_in_order': [n for n, *_ in seq], 'step': step, 'use': name, 'value': v, 'outcome': o.brief()}
                if stamp is None:
                    # no handler in force: plain int conversion, condition on the int
                    if (o.kind == 'value') != ok or (ok and (type(o.val) is not int or o.val != v)):
                        ctx.violation('condition-semantics', 'handlers', i, wit, mech='condition-x-handlers:plain-use-differs')
                        return
                else:
                    # the handler of THIS use converted the value (the condition then sees the handler's result: whatever it says,
                    # no stamp of another use may appear, and an un-stamped int means the handler was skipped)
                    if o.kind == 'value' and not (isinstance(o.val, c18.Stamp) and o.val.source == stamp):
                        ctx.violation('condition-semantics', 'handlers', i, {**wit, 'expected_stamp': stamp}, mech='condition-x-handlers:handler-of-another-use')
                        return
                    if o.kind == 'escape':
                        ctx.violation('condition-semantics', 'handlers', i, wit, mech='condition-x-handlers:escape')
                        return

    drive.for_each_case(ctx, 'handlers', max(20, ctx.budget // 20), body_handlers, gen=lambda c, r: Ty('int'))

    # instances that violate a field's condition (built unchecked, or assigned to afterwards): every spelling of convert re-checks
    def body_unchecked_instances(i, rng, ty, T):
        PT = env.m_types
        frozen = rng.random() < 0.5
        cls = type(f"KU{next(_serial)}", (env.PaneBase,), {'__annotations__': {'n': PT.PositiveInt, 'tag': str}, 'tag': 't', '__module__': __name__}, frozen=frozen)
        bad = cls.make_unchecked(n=-5)
        if not frozen and rng.random() < 0.5:
            bad = cls(3)
            bad.n = -5
        good = cls(4)
        for label, call in (('pane.convert(x, Cls)', lambda x: env.convert(x, cls)), ('Cls.from_obj(x)', lambda x: cls.from_obj(x)),
                            ('Cls.from_data(x.into_data())', lambda x: cls.from_data(x.into_data())), ('make_converter(Cls).convert(x.into_data())', lambda x: env.make_converter(cls).convert(x.into_data())),
                            ('convert([x], List[Cls])', lambda x: env.convert([x], t.List[cls]))):
            ob, og = observe(call, bad), observe(call, good)
            ctx.count('unchecked_instance_spellings')
            ctx.case(('unchecked-instance', label[:18], ob.kind, og.kind), nontrivial=True)
            if ob.kind != 'converr' or og.kind != 'value':
                ctx.violation('condition-semantics', 'unchecked', i, {'spelling': label, 'instance_violating_the_condition': short(bad), 'outcome': ob.brief(),
                                                                      'valid_instance_outcome': og.brief()}, mech='condition-not-rechecked:' + label.split('(')[0])
                return

    drive.for_each_case(ctx, 'unchecked', 30, body_unchecked_instances, gen=lambda c, r: Ty('int'))

    # the condition is asked about the value as it is NOW: one mutable object converted, changed in place by its owner, and converted
    # again through the same type (where the inner type hands the object through: Any) is judged afresh, in both directions
    def body_mutated_between(i, rng, ty, T):
        kind = rng.choice(('len-max', 'nonempty', 'user-first-positive', 'dict-len'))
        if kind == 'len-max':
            cond, x, ok0, change = C.build_cond({'op': 'len_range', 'max': 2}), [1, 2], True, lambda o: o.append(3)
        elif kind == 'nonempty':
            cond, x, ok0, change = C.build_cond({'op': 'nonempty'}), [], False, lambda o: o.append(1)
        elif kind == 'user-first-positive':
            cond, x, ok0, change = env.m_annotations.Condition(lambda v: v[0] > 0, 'first_positive'), [1, 5], True, lambda o: o.__setitem__(0, -1)
        else:
            cond, x, ok0, change = C.build_cond({'op': 'len_range', 'min': 1}), {}, False, lambda o: o.__setitem__('k', 1)
        TT = t.Annotated[t.Any, cond]
        place = rng.choice(('top', 'field', 'list'))
        if place == 'field':
            H = type(f"MB{next(_serial)}", (env.PaneBase,), {'__annotations__': {'f': TT}, '__module__': __name__})
            call = lambda: H.from_data({'f': x})
        elif place == 'list':
            LT = t.List[TT]
            call = lambda: env.from_data([x], LT)
        else:
            call = lambda: env.from_data(x, TT)
        first = observe(call)
        change(x)
        second = observe(call)
        third = observe(call)
        ctx.count('mutated_between_calls_checked')
        ctx.case(('mutated-between', kind, place, first.kind, second.kind), nontrivial=True)
        want = ('value' if ok0 else 'converr', 'converr' if ok0 else 'value')
        if (first.kind, second.kind) != want or third.kind != second.kind:
            ctx.violation('accepts-iff-inner-and-predicate', 'mutated-between', i,
                          {'condition': kind, 'placed': place, 'first_call': first.brief()[:150], 'then': 'the owner changed the object in place', 'second_call': second.brief()[:150],
                           'third_call': third.brief()[:150], 'expected': f"{want[0]} then {want[1]} (twice)"}, mech='condition-verdict-remembered-for-an-object')

    drive.for_each_case(ctx, 'mutated-between', 40, body_mutated_between, gen=lambda c, r: Ty('int'))

    # one conditioned type used again and again with EQUAL values of different kinds (2 / 2.0, True / 1, 5 / 5+0j) and with a predicate
    # whose answer follows outside state: every call is judged by what the predicate says about THIS value NOW, and a cause is carried
    # exactly when the predicate raised on this call (round 11: verdicts or exceptions remembered per value)
    def body_equal_values(i, rng, ty, T):
        from .. import special
        for name, TT, steps in special.equal_value_sequences(rng):
            place = rng.choice(('top', 'field', 'list', 'dict-value'))
            if place == 'field':
                H = type(f"EV{next(_serial)}", (env.PaneBase,), {'__annotations__': {'f': TT}, '__module__': __name__})
                call, get = (lambda v: H.from_data({'f': v})), (lambda r: r.f)
            elif place == 'list':
                LT = t.List[TT]
                call, get = (lambda v: env.from_data([v], LT)), (lambda r: r[0])
            elif place == 'dict-value':
                DT = t.Dict[str, TT]
                call, get = (lambda v: env.from_data({'k': v}, DT)), (lambda r: r['k'])
            else:
                call, get = (lambda v: env.from_data(v, TT)), (lambda r: r)
            history = []
            for step in steps:
                if step[0] == 'do':
                    step[1]()
                    history.append('state changed')
                    continue
                _, v, expected = step
                o = observe(call, v)
                ctx.count('equal_value_sequence_calls')
                ctx.case(('equal-values', name, place, expected, o.kind), nontrivial=True)
                wit = {'condition': name, 'placed': place, 'earlier_calls_on_this_type': history[-8:], 'value': repr(v), 'predicate_says': expected, 'pane': o.brief()[:250]}
                history.append(repr(v))
                if o.kind == 'escape':
                    ctx.violation('condition-semantics', 'equal-values', i, wit, mech=f"escape-after-equal-value:{type(o.exc).__name__}")
                    return
                if (o.kind == 'value') != (expected == 'accept'):
                    ctx.violation('accepts-iff-inner-and-predicate', 'equal-values', i, wit, mech='verdict-of-an-earlier-equal-value')
                    return
                if o.kind == 'value':
                    got = get(o.val)
                    if type(got) is not type(v) or repr(got) != repr(v):
                        ctx.violation('accepted-value-unchanged', 'equal-values', i, {**wit, 'returned': repr(got)}, mech='value-of-an-earlier-equal-value')
                        return
                elif place == 'top':
                    node = o.exc.tree
                    has_cause = isinstance(node, E.ConditionFailedError) and node.cause is not None
                    if has_cause != (expected == 'raises'):
                        ctx.violation('raising-predicate-carries-cause', 'equal-values', i, {**wit, 'tree': short(node, 300), 'cause_carried': has_cause},
                                      mech='cause-of-an-earlier-call' if has_cause else 'cause-not-carried')
                        return

    drive.for_each_case(ctx, 'equal-values', 30, body_equal_values, gen=lambda c, r: Ty('int'))

    # the aliases shipped in pane.types
    def body_alias(i, rng, ty, T):
        PT = env.m_types
        table = (
            (PT.PositiveInt, Ty('int'), {'op': 'positive'}), (PT.NonNegativeInt, Ty('int'), {'op': 'nonneg'}),
            (PT.NegativeInt, Ty('int'), {'op': 'negative'}), (PT.NonPositiveInt, Ty('int'), {'op': 'nonpos'}),
            (PT.PositiveFloat, Ty('float'), {'op': 'positive'}), (PT.NonNegativeFloat, Ty('float'), {'op': 'nonneg'}),
            (PT.NegativeFloat, Ty('float'), {'op': 'negative'}), (PT.NonPositiveFloat, Ty('float'), {'op': 'nonpos'}),
            (PT.FiniteFloat, Ty('float'), {'op': 'finite'}), (PT.ListNotEmpty[int], Ty('list', [Ty('int')]), {'op': 'len_range', 'min': 1}),
        )
        for alias, inner_ty, spec in table:
            spec = C.with_names(spec)
            T_inner = build(inner_ty)
            vals = num_values(rng, [spec]) if inner_ty.k != 'list' else [[], [1], [1, 2], 'x', [1.5]]
            for v in vals:
                direct(i, 'alias', inner_ty, [spec], T_inner, alias, v)
            ctx.count('alias_types_checked')

    drive.for_each_case(ctx, 'alias', 2, body_alias, gen=lambda c, r: Ty('int'))
