"""C09 — conversion never mutates its input (both verdicts, every depth)."""
import collections
import collections.abc
import copy
import traceback

from .. import env, genval, drive
from ..common import observe, fingerprint
from ..ctx import short
from ..tyast import describe, skeleton

PLAN = {
    'quick': {'shards': 16, 'budget': 1500},
    'thorough': {'shards': 64, 'budget': 20000, 'timeout': 7200},
}
LEVEL = 'exploration'
TECHNIQUE = "runtime monitoring: deep identity-aware fingerprint of every argument before/after each API call, plus tripwire dict/list carriers that log any mutator call with its stack"
RULE = ("for every generated (type, value): from_data / convert / Cls.from_data on members, near-members and arbitrary "
        "values (accepted and rejected), then into_data / x.into_data / convert / Cls(**typed) / copy / deepcopy / "
        "__replace__ on the typed result; the argument's deep fingerprint (exact types, container ids, lengths, key order, "
        "dataclass fields and set-field record) must be unchanged and the tripwire log empty. "
        "distinct = (api, type skeleton, value skeleton, verdict)")
ASSUMPTIONS = ["fingerprint() covers the containers the generators produce (dict/list/tuple/deque/OrderedDict/mappingproxy/custom Mapping/Sequence, sets, pane dataclasses, numpy arrays)"]
ANCHORS = ['converters:TaggedUnionConverter.try_convert', 'converters:TaggedUnionConverter.collect_errors',
           'classes:PaneConverter.try_convert_struct', 'classes:PaneConverter.collect_errors_struct',
           'classes:PaneConverter.try_convert_tuple', 'converters:TupleConverter.try_convert',
           'converters:DictConverter.try_convert', 'converters:SequenceConverter.try_convert',
           'converters:StructConverter.into_data', 'classes:PaneConverter.into_data', 'convert:into_data', 'convert:convert']
MIN_COUNTERS = {'quick': {'calls_checked': 30000, 'rejected_inputs_checked': 8000, 'tagged_inputs_checked': 500,
                          'trap_carriers_used': 3000, 'keyed_inputs_checked': 5000, 'array_layouts_checked': 300, 'partial_instance_calls': 1000, 'later_assignment_checks': 1500}}

TRAPLOG = []
ARMED = set()


def _log(name):
    def method(self, *a, **kw):
        if id(self) in ARMED:   # only the caller's own input objects; copies made by the callee are its business
            stack = [f"{fs.filename.rsplit('/', 2)[-1]}:{fs.lineno}:{fs.name}" for fs in traceback.extract_stack()[-6:-1]]
            TRAPLOG.append((type(self).__name__, name, short(a, 80), stack))
        return getattr(super(type(self), self), name)(*a, **kw)
    method.__name__ = name
    return method


class TrapDict(dict):
    pass


class TrapList(list):
    pass


for _m in ('__setitem__', '__delitem__', 'pop', 'popitem', 'clear', 'update', 'setdefault', '__ior__'):
    setattr(TrapDict, _m, _log(_m))
for _m in ('__setitem__', '__delitem__', 'append', 'extend', 'insert', 'remove', 'pop', 'clear', 'sort', 'reverse',
           '__iadd__', '__imul__'):
    setattr(TrapList, _m, _log(_m))


def trapify(v, rng, p=0.5):
    if isinstance(v, dict) and type(v) is dict:
        d = {k: trapify(x, rng, p) for k, x in v.items()}
        if rng.random() < p:
            d = TrapDict(d)
            ARMED.add(id(d))
        return d
    if type(v) is list:
        items = [trapify(x, rng, p) for x in v]
        if rng.random() < p:
            items = TrapList(items)
            ARMED.add(id(items))
        return items
    if type(v) is tuple:
        return tuple(trapify(x, rng, p) for x in v)
    return v


def has_kind(ty, kind, depth=0):
    if ty.k == kind:
        return True
    kids = list(ty.a) + ([f.ty for f in ty.x['spec'].fields] if ty.k == 'dc' else [])
    return depth < 8 and any(has_kind(c, kind, depth + 1) for c in kids)


def run(ctx):
    def checked(api, i, ty, f, args, kwargs=None, watch=None):
        kwargs = kwargs or {}
        watch = list(args) + list(kwargs.values()) if watch is None else watch
        before = [fingerprint(a) for a in watch]
        del TRAPLOG[:]
        out = observe(f, *args, **kwargs)
        after = [fingerprint(a) for a in watch]
        ctx.count('calls_checked')
        ctx.count(f"api_{api}")
        if out.kind != 'value':
            ctx.count('rejected_inputs_checked')
        ctx.case((api, skeleton(ty, 3), genval.skeleton(watch[0], 3) if watch else '', out.kind),
                 sample={'api': api, 'type': describe(ty)[:200], 'arg': short(watch[0] if watch else None, 150), 'outcome': out.brief()[:120]})
        if before != after or TRAPLOG:
            ctx.violation('input-untouched', drive.current.get('sub'), i,
                          {'api': api, 'type': describe(ty), 'argument_before': short(before, 600), 'argument_after': short(after, 600),
                           'mutator_calls': short(TRAPLOG[:3], 600), 'outcome': out.brief()},
                          mech=f"{api}:{'tripwire' if TRAPLOG else 'fingerprint'}")
        return out

    def body(i, rng, ty, T):
        tagged = has_kind(ty, 'tagged')
        ARMED.clear()
        keep = []   # keep every armed object alive for the whole case so ids are not recycled
        for j in range(3):
            cls_, v = genval.case_values(ty, rng)
            if rng.random() < 0.6:
                v = trapify(v, rng)
                keep.append(v)
                ctx.count('trap_carriers_used')
            if tagged:
                ctx.count('tagged_inputs_checked')
            api = rng.choice(('from_data', 'from_data', 'convert') + (('Cls.from_data',) if ty.k == 'dc' else ()))
            if api == 'from_data':
                out = checked(api, i, ty, env.from_data, (v, T))
            elif api == 'convert':
                out = checked(api, i, ty, env.convert, (v, T), watch=[v])
            else:
                out = checked(api, i, ty, T.from_data, (v,))
            if rng.random() < 0.3:
                checked(api + '#again', i, ty, env.from_data, (v, T))   # same input object a second time
            if out.kind != 'value':
                continue
            x = out.val
            checked('into_data', i, ty, env.into_data, (x, T), watch=[x])
            if rng.random() < 0.5:
                checked('convert(typed)', i, ty, env.convert, (x, T), watch=[x])
            if ty.k == 'dc':
                checked('x.into_data', i, ty, x.into_data, (), watch=[x])
                # read-only views of the instance: dict (all / set-only / renamed), repr, ==, hash
                checked('x.dict', i, ty, x.dict, (), watch=[x])
                checked('x.dict(set_only)', i, ty, x.dict, (), {'set_only': True}, watch=[x])
                checked('x.dict(rename)', i, ty, x.dict, (), {'rename': rng.choice(('camel', 'kebab', 'scream'))}, watch=[x])
                checked('repr', i, ty, repr, (x,))
                checked('==', i, ty, lambda a, b: a == b, (x, copy.copy(x)), watch=[x])
                checked('hash', i, ty, lambda a: observe(hash, a).kind, (x,))
                checked('copy', i, ty, copy.copy, (x,))
                checked('deepcopy', i, ty, copy.deepcopy, (x,))
                kw = {f.name: getattr(x, f.name) for f in type(x).__pane_info__.fields if f.init and f.name in x.__pane_set__}
                checked('Cls(**typed)', i, ty, T, (), kw, watch=list(kw.values()) + [x])
                if kw:
                    name = rng.choice(sorted(kw))
                    checked('__replace__', i, ty, x.__replace__, (), {name: kw[name]}, watch=[x, kw[name]])
                # replacing a field the instance was NOT given (it holds its default): the new instance records it, the original does not
                unset = [f.name for f in type(x).__pane_info__.fields if f.init and f.name not in x.__pane_set__]
                if unset:
                    name2 = rng.choice(sorted(unset))
                    checked('__replace__(unset field)', i, ty, x.__replace__, (), {name2: getattr(x, name2)}, watch=[x])
                    checked('__replace__(unset field, bad value)', i, ty, x.__replace__, (), {name2: object()}, watch=[x])
                # the public unchecked constructors: the dict handed in (possibly omitting defaulted fields) stays as it was
                fields = [f for f in type(x).__pane_info__.fields if f.init]
                partial = {f.name: getattr(x, f.name) for f in fields if not (f.has_default() and rng.random() < 0.5)}
                checked('from_dict_unchecked', i, ty, T.from_dict_unchecked, (partial,))
                sf = set(partial)
                checked('from_dict_unchecked(set_fields)', i, ty, T.from_dict_unchecked, (dict(partial),), {'set_fields': sf}, watch=[sf])
                checked('make_unchecked', i, ty, T.make_unchecked, (), dict(partial), watch=list(partial.values()))

    drive.for_each_case(ctx, 'main', ctx.budget, body)

    # tagged unions x 3 layouts x layout-shaped near-members x every Mapping carrier (tag stripping must copy)
    def body_tagged(i, rng, ty, T):
        ARMED.clear()
        keep = []
        base = [genval.tagged_member(ty, rng) for _ in range(2)]
        vals = list(base)
        for b in base:
            vals.extend(genval.tagged_layout_mutations(ty, b, rng))
        for v in vals:
            if not isinstance(v, dict):
                continue
            for cname, carrier in genval.MAP_CARRIERS + (('TrapDict', None),):
                if carrier is None:
                    cv = TrapDict(v)
                    ARMED.add(id(cv))
                else:
                    cv = carrier(v)
                keep.append(cv)
                ctx.count('tagged_inputs_checked')
                ctx.count(f"carrier_{cname}")
                checked('from_data', i, ty, env.from_data, (cv, T))
                if rng.random() < 0.3:
                    checked('from_data#again', i, ty, env.from_data, (cv, T))

    from .. import gentypes
    drive.for_each_case(ctx, 'tagged', max(10, ctx.budget // 6), body_tagged,
                        gen=lambda c, r: gentypes.gen_tagged(r, 1, overlap=r.random() < 0.5))

    # mapping-shaped targets x {complete, one key missing, one extra key} x every Mapping carrier, among them
    # defaultdicts: reading an absent key through `val[k]` INSERTS it, which the key-order fingerprint sees
    def body_keyed(i, rng, ty, T):
        ARMED.clear()
        keep = []
        base = genval.member(ty, rng)
        inner_list = ty.k == 'list'
        m = base[0] if inner_list and base else base
        if not isinstance(m, dict):
            return
        variants = [dict(m)]
        for k in list(m)[:3]:
            variants.append({kk: x for kk, x in m.items() if kk != k})
        variants.append({**m, 'zz_extra': 1})
        variants.append({**m, **{f"zz_extra_{j}": j for j in range(8)}})      # more keys than the class has names
        # big documents (past any "small mapping" threshold), the real keys first, last, and in the middle of the crowd
        big = {f"zz_extra_{j}": j for j in range(rng.choice((33, 40, 70, 300)))}
        variants.append({**m, **big})
        variants.append({**big, **m})
        half = dict(list(big.items())[:len(big) // 2])
        variants.append({**half, **m, **big})
        carriers = genval.MAP_CARRIERS + (('defaultdict(int)', lambda d: collections.defaultdict(int, d)),
                                          ('defaultdict(dict)', lambda d: collections.defaultdict(dict, d)),
                                          ('Counter', lambda d: collections.Counter(d) if all(type(x) is int for x in d.values()) else dict(d)))
        for v in variants:
            for cname, carrier in carriers:
                cv = carrier(v)
                keep.append(cv)
                arg = [cv] if inner_list else cv
                ctx.count('keyed_inputs_checked')
                ctx.count(f"carrier_{cname}")
                api = rng.choice(('from_data', 'from_data', 'convert'))
                checked(api, i, ty, getattr(env, api), (arg, T), watch=[arg])

    def gen_keyed(c, r):
        from ..tyast import Ty
        k = r.choice(('struct', 'dc', 'dict', 'tagged'))
        if k == 'struct':
            names = r.sample(gentypes.FIELD_NAMES, r.randint(1, 3))
            ty = Ty('struct', [gentypes.gen_type(r, 1, lit_ok=False) for _ in names], keys=tuple(names))
        elif k == 'dc':
            ty = Ty('dc', spec=gentypes.gen_class(r, 1, force={'allow_extra': True} if r.random() < 0.5 else None))
        elif k == 'dict':
            ty = Ty('dict', [Ty('str'), gentypes.gen_type(r, 1, lit_ok=False)], res='dict')
        else:
            ty = gentypes.gen_tagged(r, 1)
        if k != 'struct' and r.random() < 0.3:
            ty = Ty('list', [ty])
        return ty

    drive.for_each_case(ctx, 'keyed', max(10, ctx.budget // 6), body_keyed, gen=gen_keyed)

    # half-built instances (the public from_dict_unchecked with a partial mapping: plain defaults show through the class, factory
    # defaults are simply absent): whatever serialising, converting or wrapping them does, it does not finish them off for the caller
    def body_partial(i, rng, ty, T):
        import typing as _t
        from ..tyast import Ty as _Ty, _serial as _ser
        frozen = rng.random() < 0.5
        P = type(f"PI{next(_ser)}", (env.PaneBase,), {'__annotations__': {'a': int, 'items': _t.List[int], 'opts': _t.Dict[str, int], 'n': int},
                                                     'items': env.pfield(default_factory=list), 'opts': env.pfield(default_factory=dict), 'n': 3, '__module__': __name__}, frozen=frozen)
        H = type(f"PH{next(_ser)}", (env.PaneBase,), {'__annotations__': {'inner': P}, '__module__': __name__})
        given = rng.choice(({'a': 1}, {'a': 1, 'items': [1]}, {}, {'a': 1, 'n': 4}))
        x = P.from_dict_unchecked(dict(given))
        calls = [('into_data', lambda: env.into_data(x, P)), ('x.into_data()', lambda: x.into_data()), ('into_data([x])', lambda: env.into_data([x], _t.List[P])),
                 ('convert', lambda: env.convert(x, P)), ('Holder(inner=x)', lambda: H(inner=x)), ('Holder.make_unchecked(x).into_data()', lambda: H.make_unchecked(inner=x).into_data()),
                 ('x.dict()', lambda: x.dict()), ('x.dict(set_only=True)', lambda: x.dict(set_only=True)), ('repr', lambda: repr(x)), ('write_json', lambda: x.write_json())]
        for api, f in calls:
            checked(api, i, _Ty('int'), f, (), watch=[x])
            ctx.count('partial_instance_calls')

    drive.for_each_case(ctx, 'partial', 30, body_partial, gen=lambda c, r: __import__('pv.tyast', fromlist=['Ty']).Ty('int'))

    # arrays the caller owns, in the memory layouts numpy hands out: foreign byte order, a strided view, read-only, Fortran order;
    # serialising them, or passing them to a dataclass with an array field, leaves bytes, dtype, strides and flags as they were
    def body_arrays(i, rng, ty_unused, T_unused):
        import numpy as np
        base = np.arange(1, 13).astype(rng.choice(('<i4', '>i4', '<f8', '>f8', '>i2', '<c16', '>c16', '?'))).reshape(rng.choice(((12,), (3, 4), (2, 3, 2))))
        variants = [base, base[::2], np.asfortranarray(base), base.T]
        ro = base.copy()
        ro.flags.writeable = False
        variants.append(ro)
        swapped = base.byteswap().view(base.dtype.newbyteorder())
        variants.append(swapped)
        cls = type(f"KA{next(_serial)}", (env.PaneBase,), {'__annotations__': {'arr': np.ndarray, 'n': int}, 'n': 0, '__module__': __name__})
        for a in variants:
            ctx.count('array_layouts_checked')
            checked('into_data(array)', i, Ty('ndarray', dtype=None), env.into_data, (a,))
            checked('into_data(array, ndarray)', i, Ty('ndarray', dtype=None), env.into_data, (a, np.ndarray))
            checked('convert(array)', i, Ty('ndarray', dtype=None), env.convert, (a, np.ndarray), watch=[a])
            o = checked('Cls(array)', i, Ty('ndarray', dtype=None), cls, (a,))
            if o.kind == 'value':
                checked('x.into_data(array field)', i, Ty('ndarray', dtype=None), o.val.into_data, (), watch=[o.val, a])
            checked('from_data(list-of-array)', i, Ty('ndarray', dtype=None), env.from_data, ([a, a], t.List[np.ndarray]), watch=[a])
        # Counters with zero / negative counts, defaultdicts: serialising does not tidy the caller's mapping
        c = collections.Counter({'a': 2, 'b': 0, 'c': -1})
        checked('into_data(Counter)', i, Ty('counter', [Ty('str')]), env.into_data, (c,))
        checked('into_data(Counter, typed)', i, Ty('counter', [Ty('str')]), env.into_data, (c, t.Counter[str]))
        dd = collections.defaultdict(list, {'a': [1]})
        checked('into_data(defaultdict)', i, Ty('dict', [Ty('str'), Ty('any')]), env.into_data, (dd, t.DefaultDict[str, t.List[int]]))
        ccls = type(f"KC{next(_serial)}", (env.PaneBase,), {'__annotations__': {'cnt': t.Counter[str]}, '__module__': __name__})
        o = checked('Cls(Counter)', i, Ty('counter', [Ty('str')]), ccls, (c,))
        if o.kind == 'value':
            checked('x.into_data(Counter field)', i, Ty('counter', [Ty('str')]), o.val.into_data, (), watch=[o.val, c])

    from ..tyast import Ty, _serial
    import typing as t
    drive.for_each_case(ctx, 'arrays', max(6, ctx.budget // 100), body_arrays, gen=lambda c, r: Ty('int'))

    # user converters hand the library objects the CALLER owns (a converter whose into_data returns the instance's own mapping, whose
    # try_convert keeps the mapping it was given): tagged unions, containers and dataclasses around them add their keys to copies only
    def body_user_converters(i, rng, ty_unused, T_unused):
        from pane.annotations import Tagged

        class Doc:
            def __init__(self, kind, body):
                self.kind, self.body = kind, body

        def mk(kindv):
            cls_ = type(f"Doc_{kindv}", (Doc,), {'kind': kindv})

            class Conv(env.Converter):
                def expected(self, plural=False): return f"{kindv} document"
                def into_data(self, val): return val.body              # the caller's own dict
                def try_convert(self, val):
                    if not isinstance(val, collections.abc.Mapping):
                        raise env.ParseInterrupt()
                    return cls_(kindv, val)                            # keeps the mapping it was given
                def collect_errors(self, val):
                    return None if isinstance(val, collections.abc.Mapping) else env.m_errors.WrongTypeError(self.expected(), val)
            return cls_, Conv()
        A, ca = mk('a')
        B, cb = mk('b')
        custom = {A: ca, B: cb}
        ext = rng.choice((False, True, ('t', 'c')))
        U = t.Annotated[t.Union[A, B], Tagged('kind', ext)]
        doc = A('a', {'x': 1, 'nested': {'y': [1, 2]}})
        for TT, x in ((U, doc), (t.List[U], [doc, B('b', {'z': 0})]), (t.Dict[str, U], {'k': doc})):
            ctx.count('user_converter_objects_checked')
            watch = [x, doc.body, doc.body['nested']]
            checked('into_data(user-converted)', i, Ty('any'), env.into_data, (x, TT), {'custom': custom}, watch=watch)
        data = {'kind': 'a', 'x': 1} if ext is False else ({'a': {'x': 1}} if ext is True else {'t': 'a', 'c': {'x': 1}})
        checked('from_data(user-converted)', i, Ty('any'), env.from_data, (data, U), {'custom': custom}, watch=[data])
        checked('from_data(user-converted, list)', i, Ty('any'), env.from_data, ([data, data], t.List[U]), {'custom': custom}, watch=[data])

    drive.for_each_case(ctx, 'user-converters', max(20, ctx.budget // 30), body_user_converters, gen=lambda c, r: Ty('int'))

    # what the caller passed stays the caller's AFTER the call too: assigning fields on the instance a construction returned (or on a
    # copy / replacement of an instance) is no business of the mapping, the set-fields record or the source instance that were passed
    # in (round 11: the record object kept instead of copied). Only plain attribute assignment on the result is used - containers a
    # type hands through (Any) may legitimately be shared, the instance's own record may not.
    def body_later_assignment(i, rng, ty_unused, T_unused):
        import copy as _copy
        P = type(f"LA{next(_serial)}", (env.PaneBase,), {'__annotations__': {'a': int, 'items': t.List[int], 'n': int, 'z': str},
                                                        'items': env.pfield(default_factory=list), 'n': 3, 'z': 'z', '__module__': __name__}, frozen=False)

        def assign(x):
            for name, val in rng.sample((('n', 9), ('z', 'changed'), ('items', [5]), ('a', 2)), rng.randint(1, 3)):
                setattr(x, name, val)
        d, s = {'a': 1, 'items': [1, 2]}, rng.choice(({'a'}, {'a', 'items'}, set()))
        if rng.random() < 0.5:
            d.pop('items')
            s.discard('items')
        makers = [('from_dict_unchecked(d, set_fields=s)', lambda: P.from_dict_unchecked(d, set_fields=s), [d, s]),
                  ('from_dict_unchecked(d)', lambda: P.from_dict_unchecked(d), [d]),
                  ('from_data(d)', lambda: P.from_data(d), [d]), ('Cls(**d)', lambda: P(**d), [d])]
        for api, mk, watch in makers:
            before = [fingerprint(w) for w in watch]
            o = observe(mk)
            if o.kind == 'value':
                observe(assign, o.val)
            ctx.count('later_assignment_checks')
            ctx.case(('later-assignment', api, o.kind), nontrivial=True)
            after = [fingerprint(w) for w in watch]
            if before != after:
                ctx.violation('input-untouched', 'later-assignment', i, {'api': api, 'then': 'fields assigned on the returned instance', 'argument_before': short(before, 400),
                                                                         'argument_after': short(after, 400)}, mech=f"{api.split('(')[0]}:input-shared-with-the-instance")
                return
        src = rng.choice((lambda: P.from_data(d), lambda: P(a=1), lambda: P.from_dict_unchecked({'a': 1, 'items': [3]}, set_fields={'a'}), lambda: P(a=4, n=5)))()
        for api, derive in (('copy.copy(x)', _copy.copy), ('copy.deepcopy(x)', _copy.deepcopy), ('x.__replace__()', lambda x: x.__replace__()),
                            ('x.__replace__(a=7)', lambda x: x.__replace__(a=7)), ('convert(x, Cls)', lambda x: env.convert(x, P)), ('from_data(x.into_data())', lambda x: P.from_data(x.into_data()))):
            image = lambda: (repr(src), repr(src.dict()), repr(sorted(src.dict(set_only=True).items(), key=repr)), repr(src.into_data()))
            before = image()
            o = observe(derive, src)
            if o.kind == 'value' and o.val is not src:
                observe(assign, o.val)
            ctx.count('later_assignment_checks')
            ctx.case(('later-assignment', api, o.kind), nontrivial=True)
            after = image()
            if before != after:
                ctx.violation('input-untouched', 'later-assignment', i, {'api': api, 'then': 'fields assigned on the derived instance', 'source_before': short(before, 400),
                                                                         'source_after': short(after, 400)}, mech=f"{api.split('(')[0]}:source-instance-shared-with-the-derived-one")
                return

    drive.for_each_case(ctx, 'later-assignment', 40, body_later_assignment, gen=lambda c, r: Ty('int'))
