"""C14 — dataclass construction is conversion; defaults are fresh; the set-field record is exact."""
import copy
import fractions
import itertools

from .. import env, genval, gentypes, drive, model
from ..common import observe, build_type
from ..ctx import short
from ..deepeq import deep_typed_eq
from ..tyast import Ty, FieldM, ClassM, describe, build, py_class, _serial

PLAN = {
    'quick': {'shards': 16, 'budget': 600},
    'thorough': {'shards': 64, 'budget': 4000, 'timeout': 7200},
}
LEVEL = 'exploration'
TECHNIQUE = "runtime monitoring: per class definition every subset of supplied fields is driven through the constructor, mapping, sequence and unchecked paths; instrumented default factories and a __post_init__ event log are the monitors; per-field oracle is the real from_data on the field's own type"
RULE = ("generated class definitions (1-4 init fields, field types from the grammar to depth 2, default kinds {required, default, "
        "counted default_factory of list/dict/set/Fraction}, keyword-only, init=False, aliases, tuple/struct input) x ALL subsets "
        "of supplied init fields x {ctor keyword, ctor positional, mapping data, sequence data, make_unchecked}, argument values "
        "members and near-members. distinct = (class shape, supplied subset, path, outcome)")
ASSUMPTIONS = ["field values are compared with from_data(arg, field type) of the real code (C01 judges that conversion itself)"]
ANCHORS = ['classes:_make_init', 'classes:PaneConverter.try_convert_struct', 'classes:PaneConverter.try_convert_tuple',
           'classes:PaneBase.dict', 'classes:PaneBase.__copy__', 'classes:PaneBase.__deepcopy__', 'classes:PaneBase.__replace__',
           'classes:PaneConverter.collect_errors_struct', 'classes:PaneConverter.collect_errors_tuple']
MIN_COUNTERS = {'quick': {'constructions': 30000, 'factory_defaults_checked': 8000, 'set_records_checked': 20000,
                          'post_init_instances_checked': 8000, 'three_path_comparisons': 4000, 'rejected_argument_cases': 3000,
                          'post_init_raise_cases': 300, 'late_hook_paths_checked': 1500, 'set_record_hook_cases': 300}}


class CountedFactory:
    """default_factory that counts its calls and hands out a fresh, recognisable product each time."""

    def __init__(self, kind):
        self.kind = kind
        self.calls = 0
        self.products = []

    def __call__(self):
        self.calls += 1
        p = {'list': list, 'dict': dict, 'set': set, 'fraction': lambda: fractions.Fraction(self.calls, 1) * 0}[self.kind]()
        self.products.append(id(p))
        return p

    def __repr__(self):
        return f"CountedFactory<{self.kind}>"


def gen_spec(rng, depth):
    spec = gentypes.gen_class(rng, depth, naming=rng.random() < 0.4)
    for f in spec.fields:
        if f.name == '_KW_ONLY_':
            continue
        kind = {'list': 'list', 'dict': 'dict', 'set': 'set', 'fraction': 'fraction'}.get(f.ty.k)
        if f.ty.k == 'dict' and f.ty.x.get('res', 'dict') != 'dict':
            kind = None
        if f.ty.k == 'set' and f.ty.x['res'] != 'set':
            kind = None
        if kind and f.init and (f.dflt == 'fac' or rng.random() < 0.6):
            f.dflt, f.dval = 'fac', CountedFactory(kind)
        elif f.dflt == 'fac':
            f.dflt, f.dval = 'req', None
    # re-establish a legal order after changing defaults
    tuple_in = 'tuple' in spec.opt('in_format')
    for f in spec.fields:
        if (f.kw_only or spec.opts.get('kw_only')) and tuple_in and not f.has_default():
            spec.opts['in_format'] = ('struct',)
            tuple_in = False
    pos_req = [f for f in spec.fields if not f.kw_only and not f.has_default()]
    pos_def = [f for f in spec.fields if not f.kw_only and f.has_default()]
    kws = [f for f in spec.fields if f.kw_only]
    spec.fields = pos_req + pos_def + kws
    r = rng.random()
    if r < 0.5:
        spec.post_init = 'ok'
    elif r < 0.8:
        cands = [f for f in spec.fields if f.ty.k in ('int', 'str') and f.init]
        if cands and rng.random() < 0.7:
            f = rng.choice(cands)
            spec.post_init = ('raise_if', f.name, rng.choice((0, 1, 5, 7)) if f.ty.k == 'int' else rng.choice(('abc', 'a', '')))
        elif rng.random() < 0.5 and any(f.init and f.has_default() for f in spec.fields):
            spec.post_init = ('raise_if_set', rng.choice([f for f in spec.fields if f.init and f.has_default()]).name)
        else:
            spec.post_init = 'raise'
    else:
        spec.post_init = None
    return spec


def model_style_ok(name):
    import re
    return re.fullmatch(r'[a-z]{2,}(_[a-z]{2,})*', name) is not None


def shape(spec):
    return (tuple(sorted(spec.opts.get('in_format', ('struct',)))), bool(spec.opts.get('kw_only')),
            tuple((f.ty.k, f.dflt, f.kw_only, f.init) for f in spec.fields), spec.post_init if not isinstance(spec.post_init, tuple) else spec.post_init[0])


def run(ctx):
    def body(i, rng, ty, T):
        S = ty.x['spec']
        cls = T
        fields = S.ordered_fields()
        init_fields = [f for f in fields if f.init]
        pos_fields = [f for f in init_fields if not S.is_kw(f)]
        log = cls._pv_post_init_log
        facs = {f.name: f.dval for f in init_fields if f.dflt == 'fac' and isinstance(f.dval, CountedFactory)}
        k = len(init_fields)
        subsets = list(itertools.chain.from_iterable(itertools.combinations(range(k), n) for n in range(k + 1)))
        if len(subsets) > 16:
            subsets = rng.sample(subsets, 16)
        cshape = shape(S)

        def expect_fields(args):
            """per supplied field: real from_data on the field's own type"""
            exp, bad = {}, None
            for f in init_fields:
                if f.name in args:
                    o = observe(env.from_data, args[f.name], build(f.ty))
                    if o.kind == 'escape':
                        return None, 'escape'
                    if o.kind != 'value':
                        bad = bad or f.name
                    exp[f.name] = o
            return exp, bad

        def inspect(path, inst, args, exp, sub_idx, calls_before, convert=True):
            """Oracle on one successfully created instance."""
            wit = {'class': S.brief(), 'path': path, 'supplied': short(args, 300), 'instance': short(inst, 300)}
            # supplied fields
            for name, o in exp.items():
                got = getattr(inst, name, '<missing>')
                if convert:
                    ok, why = deep_typed_eq(o.val, got)
                else:
                    ok, why = (got is args[name]), 'make_unchecked must store the argument itself'
                if not ok:
                    ctx.violation('argument-stored-as-converted', 'main', i, {**wit, 'field': name, 'why': why}, mech=f"{path}:supplied-field-differs")
                    return False
            # unsupplied fields
            for f in init_fields:
                if f.name in args:
                    continue
                got = getattr(inst, f.name, '<missing>')
                if f.dflt == 'val':
                    if got is not f.dval:
                        ctx.violation('default-used', 'main', i, {**wit, 'field': f.name, 'got': short(got)}, mech=f"{path}:default-not-used")
                        return False
                elif f.name in facs:
                    fac = facs[f.name]
                    ctx.count('factory_defaults_checked')
                    if got is fac or callable(got) or id(got) not in fac.products:
                        ctx.violation('factory-product-used', 'main', i, {**wit, 'field': f.name, 'got': short(got)}, mech=f"{path}:factory-itself-or-foreign-object")
                        return False
                    if fac.calls - calls_before[f.name] < 1:
                        ctx.violation('factory-called-per-instance', 'main', i, {**wit, 'field': f.name}, mech=f"{path}:factory-not-called")
                        return False
                    if id(got) in seen_products[f.name]:
                        ctx.violation('factory-product-fresh', 'main', i, {**wit, 'field': f.name}, mech=f"{path}:factory-product-shared")
                        return False
                    seen_products[f.name].add(id(got))
                    keep.append(got)
            # set-field record
            ctx.count('set_records_checked')
            so = observe(inst.dict, set_only=True)
            if so.kind != 'value' or set(so.val.keys()) != set(args):
                ctx.violation('set-fields-exact', 'main', i, {**wit, 'dict(set_only=True)': so.brief(), 'expected_keys': sorted(args)}, mech=f"{path}:set-record")
                return False
            # ... also when the view is asked for in another naming style (the record holds Python names; the keys are restyled)
            if all(model_style_ok(n) for n in args):
                st_ = ('scream', 'camel', 'kebab', 'pascal')[len(args) % 4]
                so2 = observe(inst.dict, set_only=True, rename=st_)
                want2 = {model.style_name(n, st_) for n in args}
                if so2.kind != 'value' or set(so2.val.keys()) != want2:
                    ctx.violation('set-fields-exact', 'main', i, {**wit, f"dict(set_only=True, rename={st_!r})": so2.brief(), 'expected_keys': sorted(want2)},
                                  mech=f"{path}:set-record-renamed-view")
                    return False
            ps = getattr(inst, '__pane_set__', None)
            if not isinstance(ps, set) or id(ps) in seen_sets:
                ctx.violation('set-fields-exact', 'main', i, {**wit, 'why': 'the set-field record is shared between instances'}, mech=f"{path}:set-record-shared")
                return False
            seen_sets.add(id(ps))
            keep.append(ps)
            # __post_init__ ran exactly once for this instance
            if S.post_init is not None:
                ctx.count('post_init_instances_checked')
                n = sum(1 for x in log if x == id(inst))
                if n != 1:
                    ctx.violation('post_init-once-per-instance', 'main', i, {**wit, 'calls_for_this_instance': n}, mech=f"{path}:post_init-count")
                    return False
            return True

        seen_products = {name: set() for name in facs}
        seen_sets = set()
        keep = []
        for si, subset in enumerate(subsets):
            supplied = [init_fields[j] for j in subset]
            args = {}
            typed_args = {}
            for f in supplied:
                v = genval.member(f.ty, rng, small=True)
                if rng.random() < 0.2:
                    v = genval.mutate(v, rng)
                args[f.name] = v
                # constructor only: an already-built instance of the field's own dataclass, possibly holding raw
                # (unconverted / ill-typed) contents - the constructor must convert it like any other argument
                if f.ty.k == 'dc' and rng.random() < 0.5:
                    inner_cls = py_class(f.ty)
                    raw = {g.name: rng.choice((1, 2.5, 'txt', None, [1], True)) for g in f.ty.x['spec'].fields if g.name != '_KW_ONLY_' and g.init}
                    o = observe(inner_cls.make_unchecked, **raw)
                    if o.kind == 'value':
                        typed_args[f.name] = o.val
            exp, bad = expect_fields(args)
            if bad == 'escape':
                continue
            missing_required = [f.name for f in init_fields if f.name not in args and not f.has_default()]
            expect_ok = bad is None and not missing_required
            raise_expected = False
            if S.post_init == 'raise':
                raise_expected = True
            elif isinstance(S.post_init, tuple) and S.post_init[0] == 'raise_if_set':
                raise_expected = S.post_init[1] in args
                if expect_ok:
                    ctx.count('set_record_hook_cases')
            elif isinstance(S.post_init, tuple) and expect_ok:
                fname, val = S.post_init[1], S.post_init[2]
                f0 = next((f for f in fields if f.name == fname), None)
                cur = exp[fname].val if fname in exp else (f0.dval if f0 is not None and f0.dflt == 'val' else None)
                raise_expected = cur == val
            if bad:
                ctx.count('rejected_argument_cases')
            if raise_expected and expect_ok:
                ctx.count('post_init_raise_cases')
            instances = {}
            if typed_args and not missing_required:
                targs = {**args, **typed_args}
                # what the documentation says convert is, spelled out (not convert() itself: a shortcut inside it would fool the comparison)
                def two_step(v, FT):
                    return env.from_data(env.into_data(v, FT), FT)
                want = {n: observe(two_step, v, build(next(f.ty for f in init_fields if f.name == n))) for n, v in typed_args.items()}
                if bad is None and all(w.kind != 'escape' for w in want.values()):
                    out = observe(cls, **targs)
                    ctx.count('constructions')
                    ctx.count('typed_instance_arguments')
                    ok_expected = all(w.kind == 'value' for w in want.values()) and not raise_expected
                    wit = {'class': S.brief(), 'path': 'ctor-kw(typed instance)', 'supplied': short(targs, 300), 'outcome': out.brief(),
                           'convert(arg, field type)': {n: w.brief()[:120] for n, w in want.items()}}
                    if ok_expected and (out.kind != 'value' or any(not deep_typed_eq(w.val, getattr(out.val, n, None))[0] for n, w in want.items())):
                        ctx.violation('construction-is-conversion', 'main', i, wit, mech='typed-instance-argument-not-converted')
                    elif not ok_expected and out.kind == 'value' and not raise_expected:
                        ctx.violation('construction-is-conversion', 'main', i, wit, mech='typed-instance-argument-accepted-unconverted')
            paths = [('ctor-kw', lambda: cls(**args))]
            is_prefix = [f.name for f in pos_fields[:len(args)]] == [f.name for f in supplied] and all(f in pos_fields for f in supplied)
            if is_prefix:
                paths.append(('ctor-pos', lambda: cls(*[args[f.name] for f in supplied])))
            if 'struct' in S.opt('in_format'):
                keymap = {f.name: rng.choice(sorted(model.in_names(S, f)[0], key=repr)) for f in supplied}
                # with allow_extra, unknown keys ride along (they must not stand in for absent fields)
                extras = {f"zz_unknown_{j}": j for j in range(rng.choice((0, 1, 3, 5)))} if S.opt('allow_extra') else {}
                paths.append(('data-mapping', lambda: cls.from_data({**{keymap[n]: v for n, v in args.items()}, **extras})))
            if 'tuple' in S.opt('in_format') and is_prefix:
                paths.append(('data-sequence', lambda: cls.from_data([args[f.name] for f in supplied])))
            for pname, call in paths:
                del log[:]
                before = {n: fc.calls for n, fc in facs.items()}
                out = observe(call)
                ctx.count('constructions')
                ctx.case((cshape, len(subset), pname, out.kind), nontrivial=True,
                         sample={'class': S.brief()[:200], 'path': pname, 'supplied': short(args, 120), 'outcome': out.brief()[:100]})
                wit = {'class': S.brief(), 'path': pname, 'supplied': short(args, 300), 'outcome': out.brief(),
                       'field_rejected_on_its_own': bad, 'missing_required': missing_required, 'post_init_should_raise': raise_expected}
                if pname.startswith('ctor') and missing_required:
                    if out.kind == 'value':
                        ctx.violation('required-fields', 'main', i, wit, mech=f"{pname}:missing-required-accepted")
                    continue
                if not expect_ok or raise_expected:
                    if out.kind == 'value':
                        ctx.violation('construction-is-conversion', 'main', i, wit, mech=f"{pname}:accepted-what-from_data-rejects")
                    elif pname.startswith('data') and out.kind != 'converr':
                        ctx.violation('data-path-failure-is-ConvertError', 'main', i, wit, mech=f"{pname}:escape-{type(out.exc).__name__}")
                    elif pname.startswith('ctor') and bad and out.kind != 'converr':
                        ctx.violation('construction-is-conversion', 'main', i, wit, mech=f"{pname}:bad-argument-not-ConvertError")
                    elif pname.startswith('data') and raise_expected and expect_ok:
                        node = out.exc.tree
                        if getattr(node, 'cause', None) is None:
                            ctx.violation('post_init-failure-is-ConvertError-with-cause', 'main', i, {**wit, 'tree': short(node, 200)}, mech=f"{pname}:post_init-cause-missing")
                    continue
                if out.kind != 'value':
                    ctx.violation('construction-is-conversion', 'main', i, wit, mech=f"{pname}:rejected-what-from_data-accepts")
                    continue
                if inspect(pname, out.val, args, exp, si, before):
                    instances[pname] = out.val
            # the paths agree
            names = sorted(instances)
            if len(names) >= 2:
                ctx.count('three_path_comparisons')
            for a, b in zip(names, names[1:]):
                ia, ib = instances[a], instances[b]
                eq = observe(lambda: ia == ib)
                same = all(deep_typed_eq(getattr(ia, f.name, None), getattr(ib, f.name, None))[0] for f in fields)
                # `==` is only expected to say True when every field compares equal with plain == (no NaN, no arrays)
                plain = observe(lambda: all((getattr(ia, f.name, None) == getattr(ib, f.name, None)) is True for f in fields))
                eq_expected = S.opt('eq') and plain.kind == 'value' and plain.val
                if not same or (eq_expected and (eq.kind != 'value' or eq.val is not True)):
                    ctx.violation('construction-paths-agree', 'main', i,
                                  {'class': S.brief(), 'supplied': short(args, 300), a: short(ia, 200), b: short(ib, 200), '==': eq.brief()},
                                  mech=f"{a}-vs-{b}")
            # make_unchecked: verbatim, no conversion, even for ill-typed arguments
            raw = {f.name: rng.choice(genval.WRONG_KIND) if rng.random() < 0.5 else args.get(f.name, object()) for f in supplied}
            del log[:]
            before = {n: fc.calls for n, fc in facs.items()}
            out = observe(cls.make_unchecked, **raw)
            ctx.count('constructions')
            if missing_required:
                pass
            elif out.kind == 'value':
                fake_exp = {n: None for n in raw}
                if S.post_init in (None, 'ok'):
                    inspect('make_unchecked', out.val, raw, fake_exp, si, before, convert=False)
            elif out.kind == 'converr' and S.post_init in (None, 'ok'):
                ctx.violation('make_unchecked-stores-verbatim', 'main', i, {'class': S.brief(), 'args': short(raw, 200), 'outcome': out.brief()}, mech='make_unchecked-converted')
            # a set-field record handed to from_dict_unchecked is copied: the caller's set stays the caller's
            if not missing_required and expect_ok:
                given = {f.name for f in supplied}
                o = observe(cls.from_dict_unchecked, {f.name: getattr(next(iter(instances.values())), f.name) for f in init_fields} if instances else {}, set_fields=given)
                if o.kind == 'value' and instances:
                    ctx.count('record_ownership_checks')
                    if o.val.__pane_set__ is given or set(o.val.__pane_set__) != given:
                        ctx.violation('set-fields-exact', 'main', i, {'class': S.brief(), 'operation': 'from_dict_unchecked(set_fields=...)', 'given': short(sorted(given)),
                                                                      'record': short(sorted(o.val.__pane_set__)), 'same_object': o.val.__pane_set__ is given},
                                      mech='from_dict_unchecked:record-is-the-callers-set')
            # copy / deepcopy / replace / from_dict_unchecked run the hook once for the new instance
            src = next(iter(instances.values()), None)
            if src is not None and S.post_init == 'ok':
                for cname, op in (('copy', lambda: copy.copy(src)), ('deepcopy', lambda: copy.deepcopy(src)),
                                  ('replace', lambda: src.__replace__()),
                                  ('from_dict_unchecked', lambda: cls.from_dict_unchecked({f.name: getattr(src, f.name) for f in init_fields}))):
                    del log[:]
                    o = observe(op)
                    if o.kind == 'value' and cname in ('deepcopy', 'replace'):
                        # products of default factories are not shared between the source and the new instance
                        for fname in facs:
                            a_, b_ = getattr(src, fname, None), getattr(o.val, fname, None)
                            if a_ is b_ and isinstance(a_, (list, dict, set)):
                                ctx.violation('defaults-are-fresh', 'main', i, {'class': S.brief(), 'operation': cname, 'field': fname, 'value': short(a_)},
                                              mech=f"{cname}:factory-product-shared")
                    if o.kind == 'value' and cname in ('copy', 'deepcopy', 'replace'):
                        # the new instance has a set-field record of its OWN (equal to the source's, never the same object)
                        ctx.count('record_ownership_checks')
                        if o.val.__pane_set__ is src.__pane_set__ or o.val.__pane_set__ != src.__pane_set__:
                            ctx.violation('set-fields-exact', 'main', i, {'class': S.brief(), 'operation': cname, 'source_record': short(sorted(src.__pane_set__)),
                                                                          'new_record': short(sorted(o.val.__pane_set__)),
                                                                          'same_object': o.val.__pane_set__ is src.__pane_set__}, mech=f"{cname}:record-shared-or-different")
                    if o.kind == 'value':
                        ctx.count('post_init_instances_checked')
                        n = sum(1 for x in log if x == id(o.val))
                        if n != 1:
                            ctx.violation('post_init-once-per-instance', 'main', i, {'class': S.brief(), 'operation': cname, 'calls_for_new_instance': n},
                                          mech=f"{cname}:post_init-count")
                        keep.append(o.val)

    def gen(ctx_, rng):
        return Ty('dc', spec=gen_spec(rng, rng.choice((0, 1, 1, 2))))

    drive.for_each_case(ctx, 'main', ctx.budget, body, gen=gen, seconds=40)

    # a hook that arrives AFTER the class statement (a class decorator that sets cls.__post_init__, a later assignment, a hook put on a
    # base that already has subclasses) is the class's hook from then on: it runs for every instance created, on every path
    def body_late_hook(i, rng, ty, T):
        import typing as _t
        frozen = rng.random() < 0.5
        Base = type(f"LH{next(_serial)}", (env.PaneBase,), {'__annotations__': {'a': int, 'b': _t.List[int]}, 'b': env.pfield(default_factory=list), '__module__': __name__},
                    frozen=frozen, in_format=('struct', 'tuple'))
        Sub = type(f"LHS{next(_serial)}", (Base,), {'__annotations__': {'c': int}, 'c': 0, '__module__': __name__})
        seen = []
        early = rng.random() < 0.5
        if early:
            Base(1)                         # an instance made before the hook exists (whatever is cached now must not outlive the assignment)
            Base.from_data({'a': 1})

        def hook(self):
            seen.append(('first', id(self)))
            if self.a < 0:
                raise ValueError('a must not be negative')

        def hook2(self):
            seen.append(('second', id(self)))
        target = rng.choice((Base, Sub))
        on_base_for_sub = target is Sub and rng.random() < 0.5
        (Base if on_base_for_sub else target).__post_init__ = hook
        paths = [('ctor', lambda: target(1)), ('ctor-kw', lambda: target(a=2)), ('make_unchecked', lambda: target.make_unchecked(3)), ('data-mapping', lambda: target.from_data({'a': 4})),
                 ('data-sequence', lambda: target.from_data([5])), ('from_dict_unchecked', lambda: target.from_dict_unchecked({'a': 6, 'b': []})),
                 ('replace', lambda: target(7).__replace__(a=8)), ('copy', lambda: copy.copy(target(9))), ('convert', lambda: env.convert({'a': 10}, target))]
        rng.shuffle(paths)
        for pname, call in paths:
            del seen[:]
            o = observe(call)
            ctx.count('late_hook_paths_checked')
            ctx.case(('late-hook', pname, early, on_base_for_sub, o.kind), nontrivial=True)
            ran = [tag for tag, ident in seen if o.kind == 'value' and ident == id(o.val)]
            if o.kind != 'value' or ran != ['first']:
                ctx.violation('post_init-once-per-instance', 'late-hook', i, {'hook_assigned': 'after the class statement' + (' (on the base of the class used)' if on_base_for_sub else ''),
                                                                             'instances_existed_before': early, 'path': pname, 'outcome': o.brief()[:200], 'hook_runs_for_the_new_instance': ran},
                              mech=f"{pname}:late-hook-not-run")
                return
        bad = observe(lambda: target.from_data({'a': -1}))
        badc = observe(lambda: target(-1))
        if bad.kind != 'converr' or badc.kind == 'value':
            ctx.violation('post_init-failure-is-ConvertError-with-cause', 'late-hook', i, {'data_path': bad.brief()[:200], 'constructor': badc.brief()[:200]}, mech='late-hook-failure-ignored')
            return
        # replaced later: the new one runs, the old one does not
        (Base if on_base_for_sub else target).__post_init__ = hook2
        for pname, call in paths[:4]:
            del seen[:]
            o = observe(call)
            ran = [tag for tag, ident in seen if o.kind == 'value' and ident == id(o.val)]
            ctx.count('late_hook_paths_checked')
            if o.kind != 'value' or ran != ['second']:
                ctx.violation('post_init-once-per-instance', 'late-hook', i, {'hook_replaced': 'a second assignment', 'path': pname, 'outcome': o.brief()[:200], 'hooks_run': ran},
                              mech=f"{pname}:stale-hook-run")
                return

    drive.for_each_case(ctx, 'late-hook', 30, body_late_hook, gen=lambda c, r: Ty('int'))
