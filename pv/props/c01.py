"""C01 — conversion accepts exactly the members of the type and returns the exactly-typed image."""
import itertools
from .. import entrypoints, env, model, genval, gentypes
from ..common import observe, same_outcome, build_type
from ..ctx import short
from ..deepeq import deep_typed_eq
from ..tyast import Ty, describe, skeleton

PLAN = {
    'quick': {'shards': 16, 'budget': 2600},
    'thorough': {'shards': 64, 'budget': 30000, 'timeout': 7200},
}
LEVEL = 'exploration'
RULE = ("type ASTs drawn from the documented grammar (depth<=3 quick, <=6 thorough) in random spellings x values "
        "(45% members, 40% near-members by directed mutation, 15% arbitrary) with random Mapping/Sequence carriers; "
        "each from_data outcome is compared with the three-valued reference model (pv/model.py) and re-run under a "
        "different spelling at the end of the shard. distinct = (type skeleton, value kind-skeleton, verdict); "
        "non-trivial = type depth>=1 or dataclass/union/enum/literal at top")
ASSUMPTIONS = ["reference model pv/model.py is the specification (its Unspecified cells are counted, not judged)",
               "numpy.array / stdlib constructors (Fraction, Decimal, fromisoformat, re.compile) are trusted"]
ANCHORS = [
    'convert:make_converter', 'convert:from_data',
    'converters:ScalarConverter.try_convert', 'converters:LiteralConverter.try_convert',
    'converters:StructConverter.try_convert', 'converters:TupleConverter.try_convert',
    'converters:DictConverter.try_convert', 'converters:SequenceConverter.try_convert',
    'converters:NestedSequenceConverter.try_convert', 'converters:EnumConverter.try_convert',
    'converters:DelegateConverter.try_convert', 'converters:DatetimeConverter.try_convert',
    'converters:UnionConverter.try_convert', 'converters:TaggedUnionConverter.try_convert',
    'converters:ConditionalConverter.try_convert', 'converters:PatternConverter.try_convert',
    'classes:PaneConverter.try_convert', 'classes:PaneConverter.try_convert_struct',
    'classes:PaneConverter.try_convert_tuple',
]
MIN_COUNTERS = {'quick': {'decided_accept': 3000, 'decided_reject': 3000, 'key_collision_cases': 100, 'constructor_placements': 10000, 'aliased_node_cases': 500}}


def check_case(ctx, sub, i, ty, T, v, cls_):
    before = dict(model.unspec_uses)
    exp = model.spec(ty, v)
    reasons = {k for k, n in model.unspec_uses.items() if n != before.get(k, 0)}
    out = observe(env.from_data, v, T)
    verdict = exp.v
    if verdict == model.UNS and exp.why == 'dict-key-collision' and reasons == {'dict-key-collision'} and ty.k in ('dict', 'counter') \
            and model.is_map(v) and all(model.spec(ty.a[0], kk).v == model.ACC for kk in v) \
            and all(model.spec(ty.a[1] if ty.k == 'dict' else Ty('int'), vv).v == model.ACC for vv in v.values()):
        # (top-level mappings only, whose keys and values are each decided members - the collision is then the mapping's own: further
        #  out or further in, something else may have its own reasons to refuse; found as a false alarm by the thorough tier)
        # every key and every value is a member and nothing else is unsettled: the mapping IS a member (element-wise rule);
        # only which of the colliding entries survives is left open
        ctx.count('key_collision_cases')
        if out.kind != 'value':
            ctx.violation('model-vs-pane', sub, i, {'type': describe(ty), 'py_type': short(T, 300), 'value': short(v, 400),
                                                    'model': 'every key and value is a member; two data keys convert to equal typed keys', 'pane': out.brief()},
                          mech='accept-but-rejected' if out.kind != 'escape' else f"escape:{type(out.exc).__name__}")
            return out
    ctx.case((skeleton(ty), genval.skeleton(v), verdict, out.kind),
             nontrivial=ty.depth() >= 1 or ty.k in ('lit', 'enum', 'sub'),
             sample={'type': describe(ty)[:300], 'value': short(v, 200), 'model': repr(exp)[:200], 'pane': out.brief()[:200]})
    ctx.count(f"class_{cls_}")
    if verdict == model.UNS:
        ctx.count('unspecified')
        ctx.mark('unspecified_reasons', exp.why)
        return out
    ctx.count(f"decided_{verdict}")
    ctx.mark('top_kinds', ty.k)
    wit = {'type': describe(ty), 'py_type': short(T, 300), 'value': short(v, 400), 'model': repr(exp)[:400], 'pane': out.brief()}
    if out.kind == 'escape':
        ctx.violation('model-vs-pane', sub, i, wit, mech=f"escape:{type(out.exc).__name__}")
    elif verdict == model.ACC:
        if out.kind != 'value':
            ctx.violation('model-vs-pane', sub, i, wit, mech='accept-but-rejected')
        else:
            ok, why = deep_typed_eq(exp.val, out.val)
            if not ok:
                wit['why'] = why
                ctx.violation('model-vs-pane', sub, i, wit, mech='wrong-image')
    else:
        if out.kind == 'value':
            ctx.violation('model-vs-pane', sub, i, wit, mech='reject-but-accepted')
    return out


def kind_twin(v, rng, depth=0):
    """v with one or more numbers replaced by an equal number of another kind; None if v holds no such number."""
    import collections.abc
    if type(v) is bool:
        return int(v)
    if type(v) is int and abs(v) < 2 ** 53:
        return bool(v) if v in (0, 1) and rng.random() < 0.4 else float(v)
    if type(v) is float and v == v and abs(v) < 2 ** 53 and v == int(v):
        return int(v)
    if depth > 5:
        return None
    if isinstance(v, collections.abc.Mapping) and type(v) is dict:
        for k in list(v):
            tk = kind_twin(k, rng, depth + 1)
            if tk is not None and rng.random() < 0.5:
                return {(tk if kk is k else kk): x for kk, x in v.items()}
            tx = kind_twin(v[k], rng, depth + 1)
            if tx is not None:
                return {**v, k: tx}
        return None
    if type(v) in (list, tuple):
        for j, x in enumerate(v):
            tx = kind_twin(x, rng, depth + 1)
            if tx is not None:
                return type(v)(list(v[:j]) + [tx] + list(v[j + 1:]))
    return None


_kserial = itertools.count()


def c05_contains_dc(ty):
    return ty.k in ('dc', 'struct', 'tagged') or any(c05_contains_dc(c) for c in ty.a)


def check_constructor(ctx, sub, i, T, v, tydesc):
    """A field annotated T is one more door into T: K(v), K(f=v) and x.__replace__(f=v) convert v exactly as pane.convert(v, T) does
    (same verdict, same stored value) - whatever the exact type of v is."""
    mk = observe(lambda: type(f"K01_{next(_kserial)}", (env.PaneBase,), {'__annotations__': {'f': T}, '__module__': __name__}))
    if mk.kind != 'value':
        ctx.count('constructor_holder_not_built')
        return True
    K = mk.val
    ref = observe(env.convert, v, T)
    if ref.kind == 'escape':
        return True
    first = None
    for label in ('K(v)', 'K(f=v)', 'x.__replace__(f=v)'):
        if label == 'x.__replace__(f=v)':
            if first is None:
                continue
            got = observe(lambda: first.__replace__(f=v))
        else:
            got = observe((lambda: K(v)) if label == 'K(v)' else (lambda: K(f=v)))
        ctx.count('constructor_placements')
        ctx.case(('constructor', label, ref.kind, got.kind), nontrivial=True)
        ok = got.kind == ref.kind
        why = f"{ref.kind} vs {got.kind}"
        if ok and got.kind == 'value':
            first = got.val
            ok, why = deep_typed_eq(ref.val, got.val.f)
            if ok:
                ok, why = deep_typed_eq(got.val.f, ref.val)
        if not ok:
            ctx.violation('model-vs-pane', sub, i, {'type': tydesc, 'value': short(v, 300), 'entry_point': label + ' with the field annotated by the type',
                                                    'pane.convert(v, T)': ref.brief(), 'this_way_in': got.brief(), 'why': why}, mech=f"entry-point-differs:constructor")
            return False
    return True


def alias_nodes(v, rng, depth=0):
    """A copy of v in which two entries of one mapping hold the VERY SAME list / dict object (what a YAML anchor and alias load as, or a
    caller reusing one list): each field still has to judge it by its own type. None when v has no such place."""
    if isinstance(v, dict) and len(v) >= 2:
        donors = [k for k, x in v.items() if isinstance(x, (list, dict))]
        if donors and rng.random() < 0.8:
            k1 = rng.choice(donors)
            k2 = rng.choice([k for k in v if k != k1])
            out = dict(v)
            out[k2] = out[k1]
            return out
    if depth < 3:
        items = list(v.items()) if isinstance(v, dict) else (list(enumerate(v)) if isinstance(v, list) else [])
        rng.shuffle(items)
        for k, x in items:
            sub = alias_nodes(x, rng, depth + 1)
            if sub is not None:
                out = dict(v) if isinstance(v, dict) else list(v)
                out[k] = sub
                return out
    return None


def gen_case(ctx, rng):
    depth = rng.choice((1, 2, 2, 3)) if ctx.tier == 'quick' else rng.choice((1, 2, 3, 3, 4, 5, 6))
    ty = gentypes.gen_type(rng, depth)
    T, err = build_type(ty, rng)
    return ty, T, err


def run(ctx):
    deferred = []
    for i in range(ctx.budget):
        if not ctx.want('main', i):
            continue
        rng = ctx.rng('main', i)
        try:
          with ctx.deadline(20, 'main', i):
            ty, T, err = gen_case(ctx, rng)
            if err is not None:
                ctx.count('type_build_failed')
                ctx.mark('type_build_errors', f"{type(err).__name__}: {str(err)[:80]}")
                continue
            for j in range(3):
                cls_, v = genval.case_values(ty, rng)
                out = check_case(ctx, 'main', i, ty, T, v, cls_)
                if len(deferred) < 400 and rng.random() < 0.3:
                    deferred.append((i, ty, v, out))
                if out is not None and out.kind != 'escape' and rng.random() < 0.25:
                    # verdict and value depend on T and v only - not on which door v came through (a Converter used directly, the
                    # dataclass classmethods, the readers fed the same document as text)
                    entrypoints.check_parse_agreement(ctx, 'model-vs-pane', 'main', i, T, v, out, describe(ty), is_dc=ty.k == 'dc')
                if out is not None and out.kind != 'escape' and rng.random() < 0.15:
                    check_constructor(ctx, 'main', i, T, v, describe(ty))
                if c05_contains_dc(ty) and rng.random() < 0.5:
                    av = alias_nodes(v, rng)
                    if av is not None:
                        ctx.count('aliased_node_cases')
                        check_case(ctx, 'main', i, ty, T, av, 'aliased-nodes')
                if out is not None and out.kind == 'value' and rng.random() < 0.5:
                    # straight after an accepted value, through the SAME type object (and so the same converter): its twin of another
                    # kind (1 -> 1.0 -> True ...), which compares and hashes equal to it - a per-converter memo keyed by the raw value
                    # would answer with the earlier result
                    tw = kind_twin(v, rng)
                    if tw is not None:
                        ctx.count('kind_twins_checked')
                        check_case(ctx, 'main', i, ty, T, tw, 'kind-twin')
        except Exception as e:
            ctx.crash('main', i, e)
    # history independence from the input side: same (T, v) again, other spelling, after everything else ran
    for (i, ty, v, out) in deferred:
        rng = ctx.rng('respell', i)
        T2, err = build_type(ty, rng)
        if err is not None:
            continue
        out2 = observe(env.from_data, v, T2)
        ctx.count('respelled_reruns')
        ok, why = same_outcome(out, out2)
        if not ok:
            ctx.violation('same-T-same-v', 'main', i,
                          {'type': describe(ty), 'py_type2': short(T2, 300), 'value': short(v, 400), 'first': out.brief(), 'second': out2.brief(), 'why': why},
                          mech='outcome-depends-on-more-than-T-and-v')
    # generic dataclasses subscripted with subscripted generics (and same-named enums) that print alike: each parametrisation accepts
    # exactly the data of ITS argument, whichever was used first
    from .. import special
    for i in range(max(10, ctx.budget // 50)):
        if not ctx.want('generic-nesting', i):
            continue
        rng = ctx.rng('generic-nesting', i)
        try:
            for desc, TT, v, must in special.generic_nesting_case(rng):
                out = observe(env.from_data, v, TT)
                ctx.count('generic_nesting_rows')
                ctx.case(('generic-nesting', desc.split('<-')[1], must, out.kind), nontrivial=True)
                if out.kind == 'escape' or (out.kind == 'value') != must:
                    ctx.violation('model-vs-pane', 'generic-nesting', i, {'case': desc, 'type': short(TT, 200), 'value': short(v, 150), 'must_accept': must, 'pane': out.brief()},
                                  mech='generic-argument-confused:' + ('accepted' if out.kind == 'value' else 'rejected'))
                    break
        except Exception as e:
            ctx.crash('generic-nesting', i, e)

    # directed: values that already have exactly the annotated (bare) type but are not their own converted image
    import enum as _enum
    import typing as _t

    class _Shade(_enum.Enum):
        DARK = 'dark'

    class _Pt(env.PaneBase):
        x: int = 0

    BARE = ((list, [{1, 2}]), (list, [(1, 2), [3]]), (list, [_Shade.DARK]), (list, [_Pt(3)]), (dict, {'a': (1, 2)}), (dict, {'a': {1}}), (dict, {'p': _Pt(1)}),
            (tuple, ([1], {2})), (tuple, (_Shade.DARK, (1,))), (_t.List, [(1,)]), (_t.Dict, {'k': {'z'}}), (_t.Any, [(1, 2)]), (_t.Any, {'a': {3}}), (set, {(1, 2)}),
            (_t.List[_t.Any], [{1}]), (_t.Dict[str, _t.Any], {'k': (1,)}), (_Pt, _Pt.make_unchecked(x='nope')), (_Pt, _Pt(4)), (_t.Optional[_Pt], _Pt.make_unchecked(x=None)))
    if ctx.shard == 0:
        for j, (TT, vv) in enumerate(BARE):
            try:
                ctx.count('constructor_directed_cases')
                check_constructor(ctx, 'constructor-directed', j, TT, vv, short(TT, 100))
            except Exception as e:
                ctx.crash('constructor-directed', j, e)

    # directed: NamedTuple classes. They are not among the documented types, and yet a converter is built for them (as for a list
    # subclass): whatever it returns has to be a member - the fields holding the elements given - or the type has to be refused
    if ctx.shard == 0:
        class _Point(_t.NamedTuple):
            x: int
            y: int = 0

        class _Pair(_t.NamedTuple):
            a: int
            b: str
        for j, (TT, vv) in enumerate(((_Point, [1, 2]), (_Point, [1]), (_Point, ['a', 'b']), (_t.List[_Point], [[1, 2]]), (_Pair, [1, 's']), (_t.Optional[_Point], [3, 4]))):
            try:
                o = observe(env.from_data, vv, TT)
                ctx.count('namedtuple_cases')
                res = o.val[0] if o.kind == 'value' and isinstance(o.val, list) else (o.val if o.kind == 'value' else None)
                member = o.kind == 'value' and isinstance(res, tuple) and all(type(e) in (int, str) for e in res)
                refused_cleanly = o.kind == 'converr' or (o.kind == 'escape' and isinstance(o.exc, (TypeError, env.UnsupportedAnnotation)))
                if not (member or refused_cleanly):
                    ctx.violation('model-vs-pane', 'namedtuple', j, {'type': short(TT, 80), 'value': short(vv), 'pane': o.brief()[:200]}, mech='namedtuple-target-returns-a-non-member')
            except Exception as e:
                ctx.crash('namedtuple', j, e)

    # directed: mappings whose data keys differ but convert to equal typed keys ('1.0' / '1.00' as Decimal, 'a/b' / 'a//b' as a path)
    from ..tyast import Ty as _Ty
    COLLIDING = (('decimal', ('1.0', '1.00', 1)), ('fraction', ('1/2', '2/4', 0.5)), ('path', ('a/b', 'a//b', 'a/b/')), ('float', (1, 1.0)),
                 ('complex', (2, 2.0)), ('date', ('2023-09-05', '20230905')), ('datetime', ('2023-09-05T11:11:11', '2023-09-05 11:11:11')))
    for i in range(max(10, ctx.budget // 100)):
        if not ctx.want('collisions', i):
            continue
        rng = ctx.rng('collisions', i)
        kk, keys = rng.choice(COLLIDING)
        kty = _Ty('path', cls='PurePosixPath') if kk == 'path' else _Ty(kk)
        ty = rng.choice((_Ty('dict', [kty, _Ty('int')], res=rng.choice(('dict', 'OrderedDict', 'defaultdict'))), _Ty('counter', [kty])))
        T, err = build_type(ty, rng)
        if err is not None:
            continue
        ks = [k for k in keys if model.spec(kty, k).v == model.ACC]
        if len(ks) < 2:
            continue
        try:
            check_case(ctx, 'collisions', i, ty, T, {k: j for j, k in enumerate(ks)}, 'member')
            check_case(ctx, 'collisions', i, ty, T, {**{k: j for j, k in enumerate(ks)}, 'zz': 'not-an-int'}, 'near')
        except Exception as e:
            ctx.crash('collisions', i, e)

    # equal-as-sets unions in both member orders inside short-lived builtin aliases, alternating in one process:
    # the verdict may depend on nothing but T and v, also when an "equal" type was converted just before
    from ..tyast import Ty
    pairs = (('int', 'float'), ('bool', 'int'), ('int', 'str'), ('float', 'complex'), ('str', 'fraction'), ('str', 'date'), ('int', 'decimal'))
    for i in range(max(40, ctx.budget // 20)):
        if not ctx.want('pairs', i):
            continue
        rng = ctx.rng('pairs', i)
        a, b = rng.choice(pairs)
        wrap = rng.choice(('list', 'dict', 'tup', 'set', 'seq'))

        def mk(x, y):
            u = Ty('union', [Ty(x), Ty(y)])
            return {'list': Ty('list', [u]), 'dict': Ty('dict', [Ty('str'), u]), 'tup': Ty('tup', [u, Ty('int')]),
                    'set': Ty('set', [u], res='frozenset'), 'seq': Ty('seq', [u])}[wrap]
        try:
            with ctx.deadline(20, 'pairs', i):
                for ty in (mk(a, b), mk(b, a), mk(a, b), mk(b, a)):
                    T, err = build_type(ty, rng)
                    if err is not None:
                        ctx.count('type_build_failed')
                        continue
                    ctx.count('order_pair_types')
                    for _ in range(3):
                        cls_, v = genval.case_values(ty, rng, small=True)
                        check_case(ctx, 'pairs', i, ty, T, v, cls_)
                    del T
        except Exception as e:
            ctx.crash('pairs', i, e)
    for k, n in model.unspec_uses.items():
        ctx.count(f"unspec[{k}]", n)
