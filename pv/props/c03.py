"""C03 — the fast pass (try_convert) and the diagnostic pass (collect_errors) always agree."""
import collections
import datetime
import decimal
import fractions
import re
import typing as t

from .. import env, genval, gentypes, monitors, drive
from ..common import observe
from ..ctx import short
from ..tyast import Ty, describe, skeleton

PLAN = {
    'quick': {'shards': 16, 'budget': 1500},
    'thorough': {'shards': 64, 'budget': 20000, 'timeout': 7200},
}
LEVEL = 'exploration'
TECHNIQUE = "runtime monitoring: class-level wrapper on every Converter.try_convert shadows each call with collect_errors on the same converter and value"
RULE = ("every try_convert call on any converter instance at any depth (class-level wrappers on all 17 built-in converter "
        "classes, PaneConverter, ValueOrListConverter and user converters) is shadowed by collect_errors on the same "
        "(converter, value); workload = C01 type/value generator + user conditions (true/false/raising) + documented "
        "HasConverter classes + typed values through Converter.convert/into_data. distinct = (converter class, value "
        "kind-skeleton, fast outcome, diagnostic outcome, top-level type skeleton)")
ASSUMPTIONS = ["collect_errors is side-effect free on the value (checked separately by C09)",
               "a raising pass is only judged when the value is in the interchange domain (typed values reach try_convert legitimately through union serialisation)"]
ANCHORS = ['converters:Converter.convert'] + [f"converters:{c}.collect_errors" for c in (
    'ScalarConverter', 'NoneConverter', 'LiteralConverter', 'UnionConverter', 'TaggedUnionConverter', 'StructConverter',
    'TupleConverter', 'DictConverter', 'SequenceConverter', 'NestedSequenceConverter', 'ConditionalConverter',
    'EnumConverter', 'DelegateConverter', 'PatternConverter', 'DatetimeConverter')] + [
    'classes:PaneConverter.collect_errors', 'classes:PaneConverter.collect_errors_struct',
    'classes:PaneConverter.collect_errors_tuple']

BUILTIN = ('AnyConverter', 'ScalarConverter', 'NoneConverter', 'LiteralConverter', 'UnionConverter',
           'TaggedUnionConverter', 'StructConverter', 'TupleConverter', 'DictConverter', 'SequenceConverter',
           'NestedSequenceConverter', 'ConditionalConverter', 'EnumConverter', 'DelegateConverter', 'PatternConverter',
           'DatetimeConverter', 'PaneConverter')

_DataType = env.m_convert._DataType
ErrorNode = env.m_errors.ErrorNode


class CountryCode:
    """The documented HasConverter example (docs/using/advanced.md)."""

    def __init__(self, code):
        self.code = code

    def __eq__(self, other):
        return isinstance(other, CountryCode) and self.code == other.code

    def __hash__(self):
        return hash(self.code)

    def __repr__(self):
        return f"CountryCode({self.code!r})"

    @classmethod
    def _converter(cls, *args, handlers):
        if len(args):
            raise TypeError("'CountryCode' doesn't support type arguments")
        return CountryCodeConverter(cls)


class CountryCodeConverter(env.Converter):
    countries = {'gb', 'us', 'cn', 'uk'}

    def __init__(self, ty):
        self.ty = ty

    def expected(self, plural=False):
        return "country codes" if plural else "a country code"

    def into_data(self, val):
        return val.code if isinstance(val, CountryCode) else val

    def try_convert(self, val):
        if not isinstance(val, str):
            raise env.ParseInterrupt()
        if val not in self.countries:
            raise env.ParseInterrupt()
        return self.ty(val)

    def collect_errors(self, val):
        if not isinstance(val, str):
            return env.m_errors.WrongTypeError(self.expected(), val)
        if val not in self.countries:
            return env.m_errors.WrongTypeError(self.expected(), val, info=f"Unknown country code '{val}'")
        return None


def make_observer(ctx):
    def ob(conv, val, outcome, result, exc):
        cname = monitors.defining_class(conv)
        serr = None
        try:
            node = conv.collect_errors(val)
            shadow = 'none' if node is None else ('node' if isinstance(node, ErrorNode) else 'badnode')
        except BaseException as e:
            shadow, serr = 'raise', e
        ctx.count('shadowed_calls')
        ctx.count(f"{cname}:{outcome}/{shadow}")
        cur = drive.current
        interchange = isinstance(val, _DataType)
        ctx.case((cname, genval.skeleton(val, 3), outcome, shadow, cur.get('tskel')), nontrivial=True)
        bad = None
        if outcome == 'ok' and shadow != 'none':
            bad = 'fast-accepts-diagnostic-rejects' if shadow != 'raise' else 'fast-accepts-diagnostic-raises'
        elif outcome == 'pi' and shadow != 'node':
            bad = {'none': 'fast-rejects-diagnostic-accepts', 'raise': 'fast-rejects-diagnostic-raises',
                   'badnode': 'diagnostic-returns-non-ErrorNode'}[shadow]
        elif outcome == 'other' and interchange:
            bad = 'fast-pass-raises-non-ParseInterrupt'
        if bad in ('fast-accepts-diagnostic-raises', 'fast-rejects-diagnostic-raises') and not interchange:
            bad = None
        if bad is not None:
            wit = {'converter': cname, 'converter_repr': short(conv, 300), 'value': short(val, 300),
                   'fast': outcome + (f" ({type(exc).__name__}: {short(str(exc), 120)})" if exc is not None and outcome == 'other' else ''),
                   'diagnostic': shadow + (f" ({type(serr).__name__}: {short(str(serr), 120)})" if serr is not None else ''),
                   'top_type': cur.get('tdesc'), 'top_value': cur.get('vdesc')}
            ctx.violation('passes-agree', cur.get('sub'), cur.get('case'), wit, mech=f"{bad}:{cname}")
    return ob


EXTRA_CONDS = (
    {'op': 'user', 'fn': 'always'}, {'op': 'user', 'fn': 'never'}, {'op': 'user', 'fn': 'boom'},
    {'op': 'user', 'fn': 'keyerr'}, {'op': 'user', 'fn': 'truthy'}, {'op': 'user', 'fn': 'returns_obj'},
    {'op': 'not', 'kid': {'op': 'user', 'fn': 'boom'}},
    {'op': 'or', 'kids': [{'op': 'user', 'fn': 'never'}, {'op': 'user', 'fn': 'boom'}]},
    {'op': 'and', 'kids': [{'op': 'user', 'fn': 'truthy'}, {'op': 'user', 'fn': 'small'}]},
)


def gen(ctx, rng):
    from .. import conds as C
    ty = drive.default_gen(ctx, rng)
    c = rng.random()
    if c < 0.15:
        spec = C.with_names(rng.choice(EXTRA_CONDS))
        inner = ty if ty.k not in ('struct',) and not (ty.k == 'tup') else Ty('int')
        return Ty('cond', [inner], conds=[spec])
    return ty


TYPED_POOL = (
    datetime.datetime(2023, 9, 5, 11, 11, 11), datetime.date(2023, 9, 5), datetime.time(11, 11, 11),
    datetime.datetime(2023, 9, 5, 11, 11, 11, tzinfo=datetime.timezone.utc),
    fractions.Fraction(1, 3), decimal.Decimal('1.5'), re.compile('ab+'), re.compile(b'ab+'), {1, 2}, frozenset({'a'}),
    collections.deque([1, 2]), collections.Counter('aab'), 1 + 2j, b'xy', 'str', 5, 2.5, None, True, [1, 'a'], {'k': 1},
)


def run(ctx):
    monitors.install()
    monitors.observers.append(make_observer(ctx))

    def body(i, rng, ty, T):
        drive.current['tskel'] = skeleton(ty, 2)
        drive.current['tdesc'] = describe(ty)[:400]
        for j in range(3):
            cls_, v = genval.case_values(ty, rng)
            drive.current['vdesc'] = short(v, 300)
            out = observe(env.from_data, v, T)
            ctx.count(f"boundary_{out.kind}")
            if out.kind == 'escape' and isinstance(out.exc, RuntimeError) and 'bug of the' in str(out.exc):
                ctx.violation('no-internal-RuntimeError', 'main', i,
                              {'type': describe(ty), 'value': short(v, 400), 'pane': out.brief()}, mech='converter-bug-RuntimeError')
            if out.kind == 'value' and rng.random() < 0.5:
                # serialisation leg: unions call try_convert on typed values
                observe(env.into_data, out.val, T)
        if rng.random() < 0.3:
            # typed (non-interchange) values straight through Converter.convert
            try:
                conv = env.make_converter(T)
            except Exception:
                return
            tv = rng.choice(TYPED_POOL)
            drive.current['vdesc'] = short(tv, 300)
            observe(conv.convert, tv)

    drive.for_each_case(ctx, 'main', ctx.budget, body, gen=gen)

    # documented HasConverter pattern, alone and nested
    def body2(i, rng, ty, T):
        wrapper = rng.choice((CountryCode, t.List[CountryCode], t.Optional[CountryCode], t.Dict[str, CountryCode],
                              t.Tuple[CountryCode, int], t.Union[int, CountryCode]))
        monitors.install()
        drive.current['tskel'] = 'HasConverter'
        drive.current['tdesc'] = str(wrapper)
        for v in ('gb', 'xx', 5, ['us', 'zz'], ['cn'], {'a': 'uk'}, {'a': 1}, None, ['gb', 3], 'uk'):
            drive.current['vdesc'] = short(v)
            observe(env.from_data, v, wrapper)

    drive.for_each_case(ctx, 'hasconverter', max(1, ctx.budget // 300), body2, gen=lambda c, r: Ty('int'))

    # converters a user assembles by hand in a `_converter` hook: a struct with OPTIONAL fields (not reachable from a type
    # expression), a union given member types that are unions themselves
    def body3(i, rng, ty, T):
        C = env.m_converters
        names = rng.sample(('host', 'port', 'user', 'tag', 'opt'), rng.randint(2, 4))
        tys = {n: rng.choice((int, str, float, t.Optional[int], t.List[int])) for n in names}
        opt = set(rng.sample(names, rng.randint(1, len(names) - 1)))
        sc = C.StructConverter(dict, tys, name='handmade', opt_fields=opt)
        uc = C.UnionConverter((t.Optional[int], rng.choice((str, t.List[int], t.Union[float, bytes]))))
        monitors.install()
        good = {int: 3, str: 's', float: 1.5, t.Optional[int]: None, t.List[int]: [1]}
        full = {n: good[tys[n]] for n in names}
        cases = [full, {}, {n: v for n, v in full.items() if n in opt}, {n: v for n, v in full.items() if n not in opt}]
        for n in names:
            cases.append({k: v for k, v in full.items() if k != n})
            cases.append({**full, n: object()})
        cases += [{**full, 'zz_extra': 1}, [1], 'x', None]
        drive.current['tskel'] = 'handmade-struct'
        drive.current['tdesc'] = f"StructConverter(dict, {tys}, opt_fields={sorted(opt)})"
        for v in cases:
            drive.current['vdesc'] = short(v, 200)
            out = observe(sc.convert, v)
            ctx.count('handmade_converter_calls')
            if out.kind == 'escape':
                ctx.violation('no-internal-RuntimeError', 'handmade', i, {'converter': drive.current['tdesc'], 'value': short(v, 200), 'pane': out.brief()},
                              mech=f"handmade-struct:{type(out.exc).__name__}")
                return
            if out.kind == 'value' and isinstance(v, dict):
                lacking = [n for n in names if n not in opt and n not in v]
                if lacking:
                    ctx.violation('passes-agree', 'handmade', i, {'converter': drive.current['tdesc'], 'value': short(v, 200), 'accepted_without_required': lacking},
                                  mech='handmade-struct:required-field-missing-accepted')
                    return
        drive.current['tskel'] = 'handmade-union'
        drive.current['tdesc'] = f"UnionConverter({uc.types})"
        for v in (3, None, 's', [1], 1.5, b'b', {'a': 1}, object(), ['x']):
            drive.current['vdesc'] = short(v, 200)
            out = observe(uc.convert, v)
            ctx.count('handmade_converter_calls')
            if out.kind == 'escape':
                ctx.violation('no-internal-RuntimeError', 'handmade', i, {'converter': drive.current['tdesc'], 'value': short(v, 200), 'pane': out.brief()},
                              mech=f"handmade-union:{type(out.exc).__name__}")
                return

    drive.for_each_case(ctx, 'handmade', max(10, ctx.budget // 20), body3, gen=lambda c, r: Ty('int'))

    # one conditioned type used again and again with equal values of different kinds, and with a predicate following outside state
    # (round 11: a fast pass that remembers verdicts per value while the diagnostic pass asks afresh); the shadow monitor judges
    # every call, an internal RuntimeError is reported here
    def body4(i, rng, ty, T):
        from .. import special
        monitors.install()
        for name, TT, steps in special.equal_value_sequences(rng):
            place = rng.choice(('top', 'list', 'optional'))
            WT = {'top': TT, 'list': t.List[TT], 'optional': t.Optional[TT]}[place]
            drive.current['tskel'] = 'equal-values:' + name
            drive.current['tdesc'] = f"{place}: Annotated[..., Condition({name})]"
            history = []
            for step in steps:
                if step[0] == 'do':
                    step[1]()
                    history.append('state changed')
                    continue
                v = [step[1]] if place == 'list' else step[1]
                drive.current['vdesc'] = short(v)
                out = observe(env.from_data, v, WT)
                ctx.count('equal_value_sequence_calls')
                if out.kind == 'escape':
                    ctx.violation('no-internal-RuntimeError', 'equal-values', i, {'condition': name, 'placed': place, 'earlier_calls_on_this_type': history[-8:], 'value': repr(v),
                                                                                 'pane': out.brief()}, mech=f"equal-value-sequence:{type(out.exc).__name__}")
                    return
                history.append(repr(v))

    drive.for_each_case(ctx, 'equal-values', 20, body4, gen=lambda c, r: Ty('int'))

    # container subclasses with validating constructors, dataclasses inheriting a validating hook (see pv/special.py)
    from .. import special
    cases = special.container_subclass_cases() + special.inherited_hook_cases() + special.protocol_cases() + special.attribute_tagged_cases() + special.tuple_layout_cases() + special.unhashable_key_cases()
    monitors.install()
    for idx, (desc, ST, vals) in enumerate(cases):
        if idx % ctx.nshards != ctx.shard or not ctx.want('special', idx):
            continue
        drive.current.update(sub='special', case=idx, tskel='special:' + desc.split('(')[0], tdesc=desc)
        for v in vals:
            drive.current['vdesc'] = short(v, 200)
            out = observe(env.from_data, v, ST)
            ctx.count('special_target_calls')
            ctx.count(f"boundary_{out.kind}")
            if out.kind == 'escape' and isinstance(out.exc, RuntimeError) and 'bug of the' in str(out.exc):
                ctx.violation('no-internal-RuntimeError', 'special', idx, {'type': desc, 'value': short(v, 300), 'pane': out.brief()}, mech='converter-bug-RuntimeError')
    monitors.observers.clear()


def post_merge(counters, sets, tier):
    reasons = []
    for c in BUILTIN:
        ok = counters.get(f"{c}:ok/none", 0)
        pi = counters.get(f"{c}:pi/node", 0)
        if ok == 0:
            reasons.append(f"converter class {c}: no accepted call was shadowed")
        if pi == 0 and c != 'AnyConverter':
            reasons.append(f"converter class {c}: no rejected call was shadowed")
    if counters.get('equal_value_sequence_calls', 0) < 1000:
        reasons.append(f"only {counters.get('equal_value_sequence_calls', 0)} calls in the equal-value sequences")
    if counters.get('shadowed_calls', 0) < 20000:
        reasons.append(f"only {counters.get('shadowed_calls', 0)} shadowed calls")
    return reasons
