"""C15 — dataclass data layouts and field-name resolution (decision table x naming configurations)."""
import itertools

from .. import env, genval, model, drive
from ..common import observe, build_type
from ..ctx import short
from ..deepeq import deep_typed_eq
from ..tyast import Ty, FieldM, ClassM, describe, build, py_class, _serial

PLAN = {
    'quick': {'shards': 16, 'budget': 60},
    'thorough': {'shards': 64, 'budget': 0, 'timeout': 7200},
}
LEVEL = 'exploration'
TECHNIQUE = "runtime monitoring: the decision table (key known/alias/renamed/python-name/unknown, duplicate, extras allowed, required present, layout enabled, length -1/min/max/+1, carrier kind) is enumerated per naming configuration against the real from_data / into_data; verdicts from the naming model written from the docs"
RULE = ("naming configurations = per-field variant (plain, aliases x1/x2, in_names without/with the Python name, rename, out_name, "
        "aliases+out_name, exclude, keyword-only, defaulted) ^ (1..3 fields) x class variant (none, rename/in_rename/out_rename "
        "in each style, two in_rename styles, allow_extra, each in_format/out_format); rows = every single accepted name, the "
        "output name, the Python name, unknown and non-string keys, every duplicate pair, absent required field, sequences of "
        "length min-1..max+1 in list/tuple/custom-Sequence/str/bytes carriers, non-container values. quick samples "
        "configurations, thorough enumerates all 1-2 field configurations and samples 3-field ones. "
        "distinct = (class variant, field variants, row kind, verdict)")
ASSUMPTIONS = ["a mapping key equal to the Python field name while other input names are configured is unspecified (counted, not judged)",
               "error-tree facets (missing/extra/duplicate sets) are judged by C07; here verdicts and output form"]
ANCHORS = ['classes:PaneConverter.__init__', 'classes:PaneConverter.try_convert', 'classes:PaneConverter.try_convert_struct',
           'classes:PaneConverter.try_convert_tuple', 'classes:PaneConverter.into_data', 'classes:_process',
           'field:FieldSpec.make_field', 'field:rename_field']
MIN_COUNTERS = {'quick': {'rows': 25000, 'mapping_rows': 12000, 'sequence_rows': 5000, 'output_checked': 1500, 'duplicate_rows': 1000,
                          'accepted_rows': 6000, 'rejected_rows': 10000}}

STYLES = ('snake', 'camel', 'pascal', 'kebab', 'scream')
NAMES = ('my_field', 'id_num', 'url_path')
FIELD_VARIANTS = (
    'plain', 'alias1', 'alias2', 'in_names', 'in_names+py', 'rename', 'out_name', 'alias+out', 'default', 'kw_default',
    'exclude', 'kw_required', 'factory', 'init_false', 'rename+out', 'in_names+out',
    # Python names no style can split (a keyword with a trailing underscore, a leading underscore) given explicit data names:
    # nothing has to be restyled, so any class style is fine with them
    'unsplittable+rename', 'unsplittable+names',
)
CLASS_VARIANTS = (
    {}, {'allow_extra': True}, {'in_format': ('tuple',)}, {'in_format': ('struct', 'tuple')}, {'in_format': ('tuple', 'struct'), 'out_format': 'tuple'},
    {'out_format': 'tuple', 'in_format': ('struct',)}, {'kw_only': True},
    *({'rename': s} for s in STYLES), *({'in_rename': s} for s in STYLES), *({'out_rename': s} for s in STYLES),
    {'in_rename': ('camel', 'kebab')}, {'in_rename': ('snake', 'scream'), 'out_rename': 'pascal'}, {'rename': 'camel', 'allow_extra': True},
    {'rename': 'kebab', 'in_format': ('struct', 'tuple')},
    # extras allowed AND positional input: allow_extra is about unknown KEYS; a sequence longer than the positional count stays refused
    {'allow_extra': True, 'in_format': ('tuple',)}, {'allow_extra': True, 'in_format': ('struct', 'tuple')},
    {'allow_extra': True, 'in_format': ('tuple', 'struct'), 'out_format': 'tuple'},
)


def make_field(idx, variant):
    name = NAMES[idx]
    ty = (Ty('int'), Ty('str'), Ty('float'))[idx]
    dv = (7, 'dflt', 2.5)[idx]
    a1, a2 = f"al{idx}a", f"al{idx}-b"
    f = FieldM(name, ty)
    if variant == 'alias1': f.aliases = (a1,)
    elif variant == 'alias2': f.aliases = (a1, a2)
    elif variant == 'in_names': f.in_names = (a1, a2)
    elif variant == 'in_names+py': f.in_names = (name, a1)
    elif variant == 'rename': f.rename = f"ren{idx}"
    elif variant == 'out_name': f.out_name = f"out{idx}"
    elif variant == 'alias+out': f.aliases, f.out_name = (a1,), f"out{idx}"
    elif variant == 'rename+out': f.rename, f.out_name = f"ren{idx}", f"OUT{idx}"
    elif variant == 'in_names+out': f.in_names, f.out_name = (a1,), f"out{idx}"
    elif variant == 'default': f.dflt, f.dval = 'val', dv
    elif variant == 'kw_default': f.dflt, f.dval, f.kw_only = 'val', dv, True
    elif variant == 'exclude': f.dflt, f.dval, f.exclude = 'val', dv, True
    elif variant == 'kw_required': f.kw_only = True
    elif variant == 'init_false': f.dflt, f.dval, f.init = 'val', dv, False
    elif variant == 'factory': f.ty, f.dflt, f.dval = Ty('list', [Ty('int')]), 'fac', list
    elif variant == 'unsplittable+rename':
        f.name, f.rename = ('from_', 'class_', 'id_')[idx], ('from', 'class', 'id')[idx]
    elif variant == 'unsplittable+names':
        f.name, f.in_names, f.out_name = ('_lo', '_hi', '_mid')[idx], ((a1, f"x{idx}"), f"out{idx}")[0], f"out{idx}"
    return f


def legal(fields, copts):
    tuple_in = 'tuple' in copts.get('in_format', ('struct',))
    seen_default = False
    for f in fields:
        kw = f.kw_only or copts.get('kw_only')
        if kw:
            if tuple_in and not f.has_default():
                return False
            continue
        if f.has_default():
            seen_default = True
        elif seen_default:
            return False
    return True


def good_value(f, rng):
    return {'int': 3, 'str': 'txt', 'float': 1.5, 'list': [1, 2]}[f.ty.k]


def bad_value(f, rng):
    return {'int': 'three', 'str': 5, 'float': 'x', 'list': 'notalist'}[f.ty.k]


def rows_for(S, rng):
    """Yield (row kind, value) pairs: the decision table for class-model S."""
    fields = [f for f in S.ordered_fields() if f.init]
    acc = {f.name: sorted(model.in_names(S, f)[0], key=repr) for f in fields}
    base = {acc[f.name][0]: good_value(f, rng) for f in fields}
    yield 'all-first-names', dict(base)
    # every accepted name of every field, one at a time
    for f in fields:
        for n in acc[f.name]:
            d = {k: v for k, v in base.items() if k != acc[f.name][0]}
            d[n] = good_value(f, rng)
            yield 'each-accepted-name', d
        # the output name and the python name as input keys
        for kind, n in (('output-name-as-key', model.out_name(S, f)), ('python-name-as-key', f.name)):
            d = {k: v for k, v in base.items() if k != acc[f.name][0]}
            d[n] = good_value(f, rng)
            yield kind, d
        # near-miss spellings
        for n in (f.name.upper(), f.name.replace('_', ''), f.name + '_', '_' + f.name, f.name.replace('_', '-'), f.name.title().replace('_', '')):
            d = {k: v for k, v in base.items() if k != acc[f.name][0]}
            d[n] = good_value(f, rng)
            yield 'near-miss-name', d
        # duplicates: every pair of accepted names
        for n1, n2 in itertools.combinations(acc[f.name], 2):
            d = dict(base)
            d.pop(acc[f.name][0], None)
            d[n1] = good_value(f, rng)
            d[n2] = good_value(f, rng)
            yield 'duplicate-pair', d
        # absent
        d = {k: v for k, v in base.items() if k != acc[f.name][0]}
        yield 'field-absent', d
        # bad value
        d = dict(base)
        d[acc[f.name][0]] = bad_value(f, rng)
        yield 'bad-value', d
    for extra in ('zz_unknown', 5, None, ('t',), ''):
        yield 'unknown-key', {**base, extra: 1}
    yield 'empty-mapping', {}
    for carrier in (genval.CustomMap, __import__('collections').OrderedDict, lambda d: __import__('types').MappingProxyType(d)):
        yield 'mapping-carrier', carrier(dict(base))
    # sequences
    pos = [f for f in fields if not S.is_kw(f)]
    req = sum(1 for f in pos if not f.has_default())
    for n in sorted({max(req - 1, 0), req, len(pos), len(pos) + 1, 0}):
        vals = [good_value(f, rng) for f in pos[:n]] + [0] * max(0, n - len(pos))
        for cname, carrier in (('list', list), ('tuple', tuple), ('custom-seq', genval.CustomSeq)):
            yield f'sequence-{cname}', carrier(vals)
        if n and pos[:n] and all(f.ty.k == 'str' for f in pos[:n]):
            yield 'sequence-str', 'x' * n
    yield 'sequence-str', 'x' * max(len(pos), 1)
    yield 'sequence-bytes', b'y' * max(len(pos), 1)
    if pos:
        yield 'sequence-bad-element', [bad_value(pos[0], rng)] + [good_value(f, rng) for f in pos[1:]]
    for other in (5, None, 'text', 2.5, True):
        yield 'non-container', other


def check_output(ctx, i, S, cls, inst, cfg):
    """Output layout, names and exclusion."""
    d = observe(inst.into_data)
    ctx.count('output_checked')
    fields = [f for f in S.ordered_fields() if not f.exclude]
    wit = {'class': S.brief(), 'instance': short(inst, 200), 'into_data': d.brief()}
    if d.kind != 'value':
        ctx.violation('output-form', 'table', i, wit, mech='into_data-raised')
        return
    if S.opt('out_format') == 'struct':
        want = [model.out_name(S, f) for f in fields]
        if not isinstance(d.val, dict) or list(d.val.keys()) != want:
            wit['expected_keys'] = want
            ctx.violation('output-form', 'table', i, wit, mech='struct-output-names-or-order')
    else:
        if not isinstance(d.val, tuple) or len(d.val) != len(fields):
            wit['expected_positions'] = [f.name for f in fields]
            ctx.violation('output-form', 'table', i, wit, mech='tuple-output-positions')
            return
        for f, got in zip(fields, d.val):
            own = observe(env.into_data, getattr(inst, f.name), build(f.ty))
            if own.kind == 'value' and not deep_typed_eq(own.val, got)[0]:
                wit['expected_positions'] = [f.name for f in fields]
                ctx.violation('output-form', 'table', i, wit, mech='tuple-output-positions')
                return


def run(ctx):
    configs = []
    for n in (1, 2):
        for fv in itertools.product(FIELD_VARIANTS, repeat=n):
            for ci, copts in enumerate(CLASS_VARIANTS):
                configs.append((fv, ci))
    rng0 = ctx.rng('configs')
    three = [(tuple(rng0.choice(FIELD_VARIANTS) for _ in range(3)), rng0.randrange(len(CLASS_VARIANTS))) for _ in range(4000)]
    if ctx.tier == 'quick':
        rq = ctx.rng('sample')
        mine = rq.sample(configs, ctx.budget * 2) + rq.sample(three, ctx.budget)
        ctx.exhaustive['1-2 field naming configurations'] = False
    else:
        allc = configs + three
        mine = [c for j, c in enumerate(allc) if j % ctx.nshards == ctx.shard]
        ctx.exhaustive['1-2 field naming configurations'] = True

    # directed: class statements that must be refused, wherever the offending field stands
    tuple_variants = [ci for ci, c in enumerate(CLASS_VARIANTS) if 'tuple' in c.get('in_format', ())]
    directed = [(('kw_default', 'kw_required'), ci) for ci in tuple_variants] + [(('plain', 'kw_default', 'kw_required'), ci) for ci in tuple_variants] + \
               [(('kw_required', 'kw_default'), ci) for ci in tuple_variants] + [(('default', 'plain'), 0), (('plain', 'default', 'plain'), 0), (('factory', 'plain'), 1)]
    if ctx.shard == 0:
        mine = directed + list(mine)
    for i, (fv, ci) in enumerate(mine):
        if not ctx.want('table', i):
            continue
        rng = ctx.rng('table', i)
        try:
            with ctx.deadline(30, 'table', i):
                copts = dict(CLASS_VARIANTS[ci])
                fields = [make_field(j, v) for j, v in enumerate(fv)]
                pos_req = [f for f in fields if not f.kw_only and not f.has_default()]
                pos_def = [f for f in fields if not f.kw_only and f.has_default()]
                fields = pos_req + pos_def + [f for f in fields if f.kw_only]
                if not legal(fields, copts):
                    # a required field after a defaulted one, a required keyword-only field under the tuple layout: the class statement
                    # itself refuses these (TypeError), whichever field comes first
                    ctx.count('illegal_configurations_checked')
                    Sx = ClassM(f"K{next(_serial)}", fields, copts)
                    bx = observe(lambda: build(Ty('dc', spec=Sx)))
                    if bx.kind == 'value' or not isinstance(bx.exc, TypeError):
                        ctx.violation('decision-table', 'table', i, {'class': Sx.brief(), 'class_definition': bx.brief()}, mech='illegal-configuration-accepted')
                    continue
                S = ClassM(f"K{next(_serial)}", fields, copts)
                ty = Ty('dc', spec=S)
                cls, err = build_type(ty)
                if err is not None:
                    ctx.count('type_build_failed')
                    ctx.mark('type_build_errors', f"{fv}/{copts}: {type(err).__name__}: {str(err)[:80]}")
                    if type(err).__name__ != 'TypingCacheReordered':
                        # every configuration of the table is a legal class definition: one that cannot even be defined binds nothing
                        ctx.violation('decision-table', 'table', i, {'class': S.brief(), 'class_definition': f"{type(err).__name__}: {str(err)[:200]}"},
                                      mech=f"class-definition-failed:{type(err).__name__}")
                    continue
                ctx.count('configurations')
                checked_output = False
                for kind, v in rows_for(S, rng):
                    exp = model.spec(ty, v)
                    out = observe(cls.from_data, v)
                    ctx.count('rows')
                    ctx.count('mapping_rows' if model.is_map(v) else ('sequence_rows' if kind.startswith('sequence') else 'other_rows'))
                    if kind == 'duplicate-pair':
                        ctx.count('duplicate_rows')
                    ctx.case((ci, fv, kind, exp.v, out.kind),
                             sample={'class': S.brief()[:200], 'row': kind, 'value': short(v, 100), 'model': repr(exp)[:80], 'pane': out.brief()[:100]})
                    if exp.v == model.UNS:
                        ctx.count('unspecified_rows')
                        continue
                    wit = {'class': S.brief(), 'row': kind, 'value': short(v, 300), 'model': repr(exp)[:300], 'pane': out.brief()}
                    if out.kind == 'escape':
                        ctx.violation('decision-table', 'table', i, wit, mech=f"{kind}:escape-{type(out.exc).__name__}")
                    elif exp.v == model.ACC:
                        ctx.count('accepted_rows')
                        if out.kind != 'value':
                            ctx.violation('decision-table', 'table', i, wit, mech=f"{kind}:rejected")
                        else:
                            ok, why = deep_typed_eq(exp.val, out.val)
                            if not ok:
                                wit['why'] = why
                                ctx.violation('decision-table', 'table', i, wit, mech=f"{kind}:bound-to-wrong-field-or-value")
                            elif not checked_output or rng.random() < 0.1:
                                check_output(ctx, i, S, cls, out.val, (fv, ci))
                                checked_output = True
                    else:
                        ctx.count('rejected_rows')
                        if out.kind == 'value':
                            ctx.violation('decision-table', 'table', i, wit, mech=f"{kind}:accepted")
                        elif out.kind == 'converr' and model.is_map(v) and rng.random() < 0.3:
                            # what the error says about the table: 'missing' is exactly the absent required fields (a field with a default
                            # OR a default factory is not required), 'extra' exactly the unknown keys (C07's tree oracle, on this row)
                            from . import c07
                            try:
                                c07.check(ctx, ty, v, out.exc.tree)
                                ctx.count('error_trees_checked')
                            except c07.Skip:
                                pass
                            except c07.Mismatch as m:
                                ctx.violation('decision-table', 'table', i, {**wit, 'rule': m.rule, 'why': m.why, 'tree': short(out.exc.tree, 300)},
                                              mech=f"{kind}:error-tree:{m.rule}")
                # duplicates judged on observed behaviour: any two keys that EACH bind field f on their own (whatever the naming
                # model thinks of them - the Python name of a renamed field is such a key on this tree) name the same field
                # together, and that is refused
                fields_i = [f for f in S.ordered_fields() if f.init]
                acc_i = {f.name: sorted(model.in_names(S, f)[0], key=repr) for f in fields_i}
                base_i = {acc_i[f.name][0]: good_value(f, rng) for f in fields_i}
                for f in fields_i:
                    rest = {k: v for k, v in base_i.items() if k != acc_i[f.name][0]}
                    cands = list(dict.fromkeys(acc_i[f.name] + [f.name, model.out_name(S, f)]))
                    binding = []
                    for n in cands:
                        if n in rest:
                            continue
                        o = observe(cls.from_data, {**rest, n: good_value(f, rng)})
                        if o.kind == 'value' and deep_typed_eq(good_value(f, rng), getattr(o.val, f.name, None))[0]:
                            binding.append(n)
                    for n1, n2 in itertools.combinations(binding, 2):
                        both = observe(cls.from_data, {**rest, n1: good_value(f, rng), n2: good_value(f, rng)})
                        ctx.count('observed_duplicate_rows')
                        if both.kind == 'value':
                            ctx.violation('decision-table', 'table', i,
                                          {'class': S.brief(), 'row': 'two keys that each bind the field', 'field': f.name, 'keys': [n1, n2],
                                           'pane': both.brief()}, mech='duplicate-pair(observed):accepted')
                        elif both.kind == 'escape':
                            ctx.violation('decision-table', 'table', i, {'class': S.brief(), 'field': f.name, 'keys': [n1, n2], 'pane': both.brief()},
                                          mech=f"duplicate-pair(observed):escape-{type(both.exc).__name__}")
        except Exception as e:
            ctx.crash('table', i, e)
