"""C02 — strictness: no coercion across value kinds, in every embedding context."""
import itertools
import yaml
import json
import io
import re

from .. import env, genval, model, drive
from ..common import observe, build_type
from ..ctx import short
from ..deepeq import deep_typed_eq
from ..tyast import Ty, FieldM, ClassM, describe, _serial
from .. import conds as C

PLAN = {
    'quick': {'shards': 16, 'budget': 1},
    'thorough': {'shards': 32, 'budget': 6000, 'timeout': 7200},
}
LEVEL = 'exploration'
TECHNIQUE = "runtime monitoring: the closed kind(value) x kind(target) x context matrix is enumerated on the real from_data; verdicts come from a hand-written kind table cross-checked against the reference model"
RULE = ("every cell of 16 value kinds x 29 target kinds x 12 embedding contexts (top level, list/set element, mapping value/key, "
        "tuple slot, union member, Optional, Annotated, dataclass field in struct and tuple layout) with 2-5 representative "
        "values per kind is enumerated in every run (the matrix is exhaustive; the representatives are not); the thorough tier "
        "adds random compositions of contexts to depth 5. A cell is must_reject / must_accept / by-content (decided by the "
        "model) / unspecified (bool offered as a number). distinct = (value kind, target kind, context path, verdict)")
ASSUMPTIONS = ["the kind table in this file is the reading of the statement; it is cross-checked cell by cell against pv/model.py and a disagreement makes the run inconclusive"]
ANCHORS = ['converters:data_is_sequence', 'converters:data_is_mapping', 'converters:ScalarConverter.try_convert',
           'classes:PaneConverter.try_convert', 'classes:PaneConverter.collect_errors', 'convert:make_converter',
           'converters:NoneConverter.try_convert']
EXHAUSTIVE_WHOLE = False

class StrSub(str):
    pass


class BytesSub(bytes):
    pass


import enum as _enum


class StrEnum(str, _enum.Enum):
    RED = 'ab'


VALUES = {
    'str-subclass-instance': [StrSub('ab'), StrSub('12'), StrEnum.RED],
    'bytes-subclass-instance': [BytesSub(b'ab')],
    'none': [None],
    'bool': [True, False],
    'int': [0, 5, -3, 1],
    'float': [2.5, 5.0, float('inf'), float('nan')],
    'complex': [1 + 2j, 3 + 0j],
    'str-numeric': ['12', '1.5', '0', '1'],
    'str-empty': [''],
    'str-other': ['abc', 'ab', 'True', 'None', '[1, 2]'],
    'bytes': [b'ab', b'12', b''],
    'bytearray': [bytearray(b'ab')],
    'list': [[1, 2], [], ['a', 'b'], [['k', 1]]],
    'tuple': [(1, 2), ()],
    'dict': [{'a': 1}, {}, {'alpha': 'x', 'count': 'y'}, {0: 'a', 1: 'b'}],
    'custom-mapping': [genval.CustomMap({'a': 1})],
    'custom-sequence': [genval.CustomSeq([1, 2]), genval.CustomSeq(['a', 'b'])],
    # already-typed objects met INSIDE data (from_data refuses them at the top level by design): the string kind of a compiled
    # pattern is part of what it is - a bytes pattern is not a str pattern
    'compiled-pattern-str': [re.compile('ab+'), re.compile('')],
    'compiled-pattern-bytes': [re.compile(b'ab+')],
}
NESTED_ONLY = ('compiled-pattern-str', 'compiled-pattern-bytes')
TOP_LEVEL_CONTEXTS = ('top', 'union-member', 'optional', 'annotated', 'yaml-document', 'json-document')
SEQ_KINDS = ('list', 'tuple', 'custom-sequence')
MAP_KINDS = ('dict', 'custom-mapping')
STR_KINDS = ('str-numeric', 'str-empty', 'str-other')


def _dc(fields, **opts):
    return Ty('dc', spec=ClassM(f"K{next(_serial)}", fields, opts))


def targets():
    return {
        'none': Ty('none'), 'bool': Ty('bool'), 'int': Ty('int'), 'float': Ty('float'), 'complex': Ty('complex'),
        'str': Ty('str'), 'bytes': Ty('bytes'), 'bytearray': Ty('bytearray'), 'decimal': Ty('decimal'),
        'fraction': Ty('fraction'), 'date': Ty('date'), 'time': Ty('time'), 'datetime': Ty('datetime'),
        'path': Ty('path', cls='PurePosixPath'), 'pattern-str': Ty('pattern', of='str'), 'pattern-bytes': Ty('pattern', of='bytes'),
        'literal': Ty('lit', vals=(1, 'abc', None, 2.5, b'ab')), 'enum': Ty('enum', members=(('A', 1), ('B', 'abc'), ('C', 2.5))),
        'list': Ty('list', [Ty('any')]), 'tuple-fixed': Ty('tup', [Ty('any'), Ty('any')]), 'tuple-var': Ty('seq', [Ty('any')]),
        'set': Ty('set', [Ty('any')], res='set'), 'dict': Ty('dict', [Ty('any'), Ty('any')]),
        'struct-literal': Ty('struct', [Ty('any')], keys=('a',)),
        'tuple-literal': Ty('tup', [Ty('any'), Ty('any')]),
        'dataclass-struct': _dc([FieldM('alpha', Ty('any'), 'val', 0), FieldM('count', Ty('any'), 'val', 0)], allow_extra=True),
        'dataclass-tuple': _dc([FieldM('alpha', Ty('any'), 'val', 0), FieldM('count', Ty('any'), 'val', 0)], in_format=('tuple',)),
        'int-subclass': Ty('sub', base='int'), 'str-subclass': Ty('sub', base='str'),
        # containers with typed elements: the container's own kind being right does not excuse the elements' kinds (also inside unions)
        'list-of-int': Ty('list', [Ty('int')]), 'dict-str-int': Ty('dict', [Ty('str'), Ty('int')]), 'tuple-int-str': Ty('tup', [Ty('int'), Ty('str')]),
        'set-of-str': Ty('set', [Ty('str')], res='set'),
        # single-kind enums: a value of another kind that merely compares equal to a member value (1.0 == 1 == True) is not a member
        'enum-int': Ty('enum', members=(('A', 1), ('B', 5), ('Z', 0))), 'enum-str': Ty('enum', members=(('A', 'ab'), ('B', '12'), ('E', ''))),
        'enum-float': Ty('enum', members=(('A', 2.5), ('B', 5.0))), 'enum-bool': Ty('enum', members=(('T', True), ('F', False))),
        'enum-intenum': Ty('enum', members=(('A', 1), ('B', 5)), flavour='IntEnum'), 'enum-strmix': Ty('enum', members=(('A', 'ab'), ('B', '12')), flavour='strmix'),
    }


SEQ_TARGETS = ('list', 'tuple-fixed', 'tuple-var', 'set', 'tuple-literal', 'dataclass-tuple', 'list-of-int', 'tuple-int-str', 'set-of-str')
MAP_TARGETS = ('dict', 'struct-literal', 'dataclass-struct', 'dict-str-int')


def cell(vk, tk):
    """'accept' | 'reject' | 'content' (decided by the model on the concrete value) | 'unspec'."""
    if vk in NESTED_ONLY:
        own = 'pattern-str' if vk == 'compiled-pattern-str' else 'pattern-bytes'
        if tk == own: return 'unspec'           # whether a compiled pattern is taken as it is: not settled by the statement
        return 'reject'
    if vk in ('str-subclass-instance', 'bytes-subclass-instance'):
        # an instance of a str/bytes subclass is still a string: never a sequence, mapping, number, bool or None;
        # whether string-reading targets take it (they do, by isinstance) is not something the statement settles
        like = STR_KINDS[2] if vk == 'str-subclass-instance' else 'bytes'
        base = cell(like, tk)
        return 'reject' if base == 'reject' else 'unspec'
    if tk in SEQ_TARGETS:
        return 'content' if vk in SEQ_KINDS else 'reject'     # content: length / element hashability
    if tk in MAP_TARGETS:
        return 'content' if vk in MAP_KINDS else 'reject'
    if tk == 'none': return 'accept' if vk == 'none' else 'reject'
    if tk == 'bool': return 'accept' if vk == 'bool' else 'reject'
    if tk in ('int', 'int-subclass'):
        return {'int': 'accept', 'bool': 'unspec'}.get(vk, 'reject')
    if tk == 'float':
        return {'int': 'accept', 'float': 'accept', 'bool': 'unspec'}.get(vk, 'reject')
    if tk == 'complex':
        return {'int': 'accept', 'float': 'accept', 'complex': 'accept', 'bool': 'unspec'}.get(vk, 'reject')
    if tk in ('str', 'str-subclass', 'path'): return 'accept' if vk in STR_KINDS else 'reject'
    if tk in ('bytes', 'bytearray'): return 'accept' if vk in ('bytes', 'bytearray') else 'reject'
    if tk in ('decimal', 'fraction'):
        if vk == 'bool': return 'unspec'
        return 'content' if vk in ('int', 'float') + STR_KINDS else 'reject'
    if tk in ('date', 'time', 'datetime', 'pattern-str'): return 'content' if vk in STR_KINDS else 'reject'
    if tk == 'pattern-bytes': return 'content' if vk in ('bytes', 'bytearray') else 'reject'
    if tk in ('enum-int', 'enum-intenum'): return {'int': 'content', 'bool': 'unspec'}.get(vk, 'reject')
    if tk in ('enum-str', 'enum-strmix'): return 'content' if vk in STR_KINDS else 'reject'
    if tk == 'enum-float': return {'int': 'content', 'float': 'content', 'bool': 'unspec'}.get(vk, 'reject')
    if tk == 'enum-bool': return 'content' if vk == 'bool' else 'reject'
    if tk == 'literal' and vk == 'complex':
        return 'content'        # Literal[1] offered 1+0j: equal but of another kind, like 1.0 / True - not settled (DESIGN 1.4); 1+2j is refused
    if tk in ('literal', 'enum'):
        return 'content' if vk in ('int', 'float', 'none', 'bool', 'bytes', 'bytearray') + STR_KINDS else 'reject'
    raise KeyError(tk)


ALWAYS = C.with_names({'op': 'user', 'fn': 'always'})


def contexts():
    """name -> (wrap_type(T) -> Ty, wrap_value(v) -> value | raises TypeError when v cannot be placed)"""
    def key_ctx(v):
        hash(v)
        return {v: 1}
    return {
        'top': (lambda T: T, lambda v: v),
        'list-element': (lambda T: Ty('list', [T]), lambda v: [v]),
        'set-element': (lambda T: Ty('set', [T], res='frozenset'), lambda v: [v]),
        'mapping-value': (lambda T: Ty('dict', [Ty('str'), T]), lambda v: {'k': v}),
        'mapping-key': (lambda T: Ty('dict', [T, Ty('int')]), key_ctx),
        'tuple-slot': (lambda T: Ty('tup', [Ty('int'), T]), lambda v: [0, v]),
        'union-member': (lambda T: Ty('union', [Ty('lit', vals=('__never__',)), T]), lambda v: v),
        'optional': (lambda T: Ty('union', [T, Ty('none')]) if T.k != 'none' else T, lambda v: v),
        'annotated': (lambda T: Ty('cond', [T], conds=[ALWAYS]), lambda v: v),
        'dataclass-field-struct': (lambda T: _dc([FieldM('inner_val', T)]), lambda v: {'inner_val': v}),
        'dataclass-field-tuple': (lambda T: _dc([FieldM('inner_val', T)], in_format=('tuple',)), lambda v: [v]),
        # the checked constructor and __replace__ convert their arguments exactly as from_data converts the field
        'dataclass-constructor': (lambda T: _dc([FieldM('inner_val', T)]), lambda v: {'inner_val': v}),
        'dataclass-constructor-positional': (lambda T: _dc([FieldM('alpha', Ty('int')), FieldM('inner_val', T)], in_format=('struct', 'tuple')), lambda v: [0, v]),
        'dataclass-replace': (lambda T: _dc([FieldM('inner_val', T)]), lambda v: {'inner_val': v}),
        'yaml-document': (lambda T: T, _as_document), 'json-document': (lambda T: T, _as_document),
        'yaml-document-in-class': (lambda T: _dc([FieldM('inner_val', T)]), lambda v: {'inner_val': _as_document(v)}),
        # a None default does not make the field's type optional
        'dataclass-field-default-none': (lambda T: _dc([FieldM('inner_val', T, 'val', None)]), lambda v: {'inner_val': v}),
        'dataclass-field-kwonly-default-none': (lambda T: _dc([FieldM('alpha', Ty('int')), FieldM('inner_val', T, 'val', None, kw_only=True)],
                                                              in_format=('struct', 'tuple')), lambda v: {'alpha': 0, 'inner_val': v}),
        # the very same object under two fields of one mapping (a YAML anchor / alias, a caller reusing a list): the Any field taking it
        # first does not vouch for the typed one
        'dataclass-field-shared-node': (lambda T: _dc([FieldM('alpha', Ty('any')), FieldM('inner_val', T)]), lambda v: {'alpha': v, 'inner_val': v}),
        # passing the default object itself (None is a singleton: `Job(retries=None)` with `retries: int = None`) is still an argument
        'dataclass-constructor-default-none': (lambda T: _dc([FieldM('inner_val', T, 'val', None)]), lambda v: {'inner_val': v}),
        'dataclass-replace-default-none': (lambda T: _dc([FieldM('inner_val', T, 'val', None)]), lambda v: {'inner_val': v}),
        # a field that is not bound positionally (init=False) sits before the slot: positions must still line up
        'dataclass-field-tuple-after-uninitialised': (
            lambda T: _dc([FieldM('alpha', Ty('str')), FieldM('zz', Ty('any'), 'val', 0, init=False), FieldM('inner_val', T)], in_format=('tuple',)),
            lambda v: ['s', v]),
    }


# contexts entered through another door than from_data: name -> call(T, wrapped value)
CALLS = {
    'dataclass-constructor': lambda T, d: T(**d),
    'dataclass-constructor-positional': lambda T, d: T(*d),
    'dataclass-replace': lambda T, d: T.make_unchecked(inner_val=None).__replace__(**d),
    'dataclass-constructor-default-none': lambda T, d: T(**d),
    'dataclass-replace-default-none': lambda T, d: T().__replace__(**d),
    # the same value arriving as a document: a null / empty document is None, not an empty mapping
    'yaml-document': lambda T, v: env.m_io.from_yaml(io.StringIO(yaml.safe_dump(v, sort_keys=False)), T),
    'json-document': lambda T, v: env.m_io.from_json(io.StringIO(json.dumps(v)), T),
    'yaml-document-in-class': lambda T, d: T.from_yamls(yaml.safe_dump(d, sort_keys=False)),
}


def _as_document(v):
    from ..entrypoints import jsonable, _only_plain_carriers
    if not (_only_plain_carriers(v) and jsonable(v)):
        raise TypeError('not a text document')
    return v


def run(ctx):
    TG = targets()
    CX = contexts()
    cells = [(vk, tk) for vk in VALUES for tk in TG]
    disagreements = []

    spell = ctx.rng('spellings')

    def check(vk, tk, path, ty, v, base_verdict, case_id, sub):
        T, err = build_type(ty, spell)     # random spellings: many of them are short-lived alias objects
        if err is not None:
            ctx.count('type_build_failed')
            ctx.mark('type_build_errors', f"{path}|{tk}: {type(err).__name__}: {str(err)[:80]}")
            return
        exp = model.spec(ty, v)
        verdict = base_verdict
        if base_verdict == 'content':
            verdict = {'accept': 'accept', 'reject': 'reject', 'unspec': 'unspec'}[exp.v]
        if path in CALLS:
            out = observe(CALLS[path], T, v)         # the checked constructor / __replace__ instead of from_data: same strictness
        else:
            out = observe(env.from_data, v, T)
        ctx.case((vk, tk, path, verdict), sample={'value_kind': vk, 'target_kind': tk, 'context': path, 'value': short(v, 80),
                                                   'table': base_verdict, 'verdict': verdict, 'pane': out.brief()[:100]})
        ctx.count(f"verdict_{verdict}")
        ctx.mark('cells', f"{vk}|{tk}")
        if '>' not in path:
            ctx.mark('contexts', path)
        if verdict == 'unspec':
            return
        # the table and the model are independent readings: they must agree where both decide
        if exp.v != 'unspec' and base_verdict in ('accept', 'reject') and exp.v != base_verdict:
            # a context can turn an accepted leaf into a rejection (unhashable set element / mapping key)
            if not (base_verdict == 'accept' and exp.v == 'reject' and ('set-element' in path or 'mapping-key' in path)):
                disagreements.append(f"{vk}|{tk}|{path}: table={base_verdict} model={exp}")
                return
            verdict = 'reject'
        wit = {'value_kind': vk, 'target_kind': tk, 'context': path, 'type': describe(ty), 'value': short(v, 200),
               'expected': verdict, 'pane': out.brief()}
        if out.kind == 'escape':
            ctx.violation('kind-matrix', sub, case_id, wit, mech=f"escape:{type(out.exc).__name__}")
        elif verdict == 'reject' and out.kind == 'value':
            ctx.violation('kind-matrix', sub, case_id, wit, mech=f"coerced:{vk}->{tk}")
        elif verdict == 'accept' and out.kind != 'value':
            ctx.violation('kind-matrix', sub, case_id, wit, mech=f"refused:{vk}->{tk}")
        elif verdict == 'accept' and exp.v == 'accept':
            ok, why = deep_typed_eq(exp.val, out.val)
            if not ok:
                wit['why'] = why
                ctx.violation('kind-matrix', sub, case_id, wit, mech=f"wrong-kind-image:{vk}->{tk}")

    # --- exhaustive matrix x contexts, split across shards by cell index -------------------------------------------
    tk_index = {tk: n for n, tk in enumerate(TG)}
    for ci, (vk, tk) in enumerate(cells):
        if tk_index[tk] % ctx.nshards != ctx.shard:
            continue
        if not ctx.want('matrix', ci):
            continue
        base = cell(vk, tk)
        try:
            for cname, (wt, wv) in CX.items():
                for v in VALUES[vk]:
                    if cname == 'optional' and vk == 'none':
                        continue    # None is allowed there by construction
                    if vk in NESTED_ONLY and cname in TOP_LEVEL_CONTEXTS:
                        continue
                    if cname in CALLS and vk in ('custom-mapping', 'custom-sequence', 'compiled-pattern-str', 'compiled-pattern-bytes', 'str-subclass-instance',
                                                 'bytes-subclass-instance', 'tuple'):
                        continue    # (arguments are converted with convert(): carriers and typed objects are normalised first - C14's matter)
                    try:
                        v2 = wv(v)
                    except TypeError:
                        continue
                    check(vk, tk, cname, wt(TG[tk]), v2, base, ci, 'matrix')
        except Exception as e:
            ctx.crash('matrix', ci, e)
    ctx.exhaustive['kind-matrix x single contexts'] = True

    # --- equal values of different kinds one after the other on the SAME (cached) scalar converter ------------------------------
    # (round 11: a memo of constructed results answered before the kind test, so that 5+0j is a float once 5 was). The matrix above
    # meets a target's value kinds in a fixed order with mostly distinct numbers; here each number goes through every kind it has an
    # equal value in, legal kinds first, then in random order, twice.
    from decimal import Decimal as _Dec
    from fractions import Fraction as _Frac
    scalar_targets = [tk for tk in ('int', 'float', 'complex', 'decimal', 'fraction', 'bool', 'int-subclass', 'enum-int', 'enum-float', 'enum-bool', 'literal')
                      if tk in TG]
    for ei, tk in enumerate(scalar_targets):
        if ei % ctx.nshards != ctx.shard or not ctx.want('equal-values', ei):
            continue
        rng = ctx.rng('equal-values', ei)
        try:
            for n in (0, 1, 5, 2, -3, 12):
                forms = [('int', n), ('float', float(n)), ('complex', complex(n)), ('str-numeric', str(n))]
                if n in (0, 1):
                    forms.insert(0, ('bool', bool(n)))
                if n == 2:
                    forms.append(('float', 2.5))
                legal = [f for f in forms if cell(f[0], tk) != 'reject']
                rest = [f for f in forms if f not in legal]
                later = forms * 2
                rng.shuffle(later)
                for cname in ('top', 'list-element', 'mapping-value', 'tuple-slot', 'dataclass-field-struct'):
                    wt, wv = CX[cname]
                    for vk, v in legal + rest + later:
                        if vk not in VALUES:
                            continue
                        ctx.count('equal_value_sequence_calls')
                        check(vk, tk, cname, wt(TG[tk]), wv(v), cell(vk, tk), ei, 'equal-values')
        except Exception as e:
            ctx.crash('equal-values', ei, e)

    # --- thorough: random compositions of contexts ------------------------------------------------------------------
    if ctx.tier == 'thorough':
        names = sorted(CX)
        for i in range(ctx.budget):
            if not ctx.want('nested', i):
                continue
            rng = ctx.rng('nested', i)
            vk, tk = rng.choice(cells)
            base = cell(vk, tk)
            ty, v = TG[tk], rng.choice(VALUES[vk])
            if vk in NESTED_ONLY:
                continue
            path = []
            try:
                for _ in range(rng.randint(2, 5)):
                    cname = rng.choice(names)
                    if cname == 'optional' and (vk == 'none' or path):
                        continue
                    if cname in CALLS:
                        continue
                    wt, wv = CX[cname]
                    try:
                        v = wv(v)
                    except TypeError:
                        continue
                    ty = wt(ty)
                    path.append(cname)
                check(vk, tk, '>'.join(path), ty, v, base, i, 'nested')
            except Exception as e:
                ctx.crash('nested', i, e)
    for d in disagreements[:5]:
        ctx.note_inconclusive(f"kind table and reference model disagree: {d}")


def post_merge(counters, sets, tier):
    reasons = []
    want = len(VALUES) * len(targets())
    if len(sets.get('cells', ())) < want:
        reasons.append(f"only {len(sets.get('cells', ()))} of {want} matrix cells were visited")
    if counters.get('equal_value_sequence_calls', 0) < 2000:
        reasons.append(f"only {counters.get('equal_value_sequence_calls', 0)} calls in the equal-value sequences")
    if len([c for c in sets.get('contexts', ()) if '>' not in c]) < 20:
        reasons.append("not every embedding context was visited")
    return reasons
