"""C11 — untagged unions: the left-most accepting member wins; serialisation uses an accepting member."""
import itertools
import types
import typing as t

from .. import env, genval, gentypes, drive, monitors, model
from ..common import observe, same_outcome
from ..ctx import short
from ..deepeq import deep_typed_eq
from ..tyast import Ty, FieldM, ClassM, describe, skeleton, build, _serial

PLAN = {
    'quick': {'shards': 16, 'budget': 1200},
    'thorough': {'shards': 64, 'budget': 15000, 'timeout': 7200},
}
LEVEL = 'exploration'
TECHNIQUE = "runtime monitoring: sequential differential — each union conversion (boundary and every nested UnionConverter call via a class-level hook) is compared with running the member converters one by one on the real code"
RULE = ("unions drawn from overlap families (numeric tower, string readers, list/tuple/set/tuple-layout dataclass, "
        "dataclasses sharing field names, mapping readers, Optional nestings, Any in non-last position; all permutations of "
        "<=4 members in the thorough tier) in nested/flattened/Optional spellings x values from the members' intersection and "
        "differences; oracle = from_data(v, A_j) for j=1..n on the real code: union succeeds iff some member does and equals "
        "the first success; into_data(x, U) equals into_data(x, A_j) of an accepting member and re-parses to x. "
        "distinct = (member kinds in order, value skeleton, index of winning member)")
ASSUMPTIONS = ["member order is read from typing.get_args of the spelled union object (typing itself flattens and de-duplicates)"]
ANCHORS = ['converters:UnionConverter.try_convert', 'converters:UnionConverter.collect_errors',
           'converters:UnionConverter.into_data', 'util:flatten_union_args', 'converters:UnionConverter.__init__']
MIN_COUNTERS = {'quick': {'generic_union_checked': 5000, 'twin_union_checked': 5000, 'boundary_checked': 15000, 'hook_checked': 15000, 'winner_not_first': 1500, 'overlap_values': 2500,
                          'serialise_checked': 4000, 'generic_reversed_argument_classes': 300}}

FAMILIES = {
    'numeric': ('bool', 'int', 'float', 'complex', 'decimal', 'fraction'),
    'strings': ('str', 'fraction', 'decimal', 'date', 'time', 'datetime', 'pattern', 'path', 'enum_s', 'lit_s'),
    'seqs': ('list_int', 'seq_int', 'set_int', 'tup2', 'dc_tuple', 'list_any', 'list_float'),
    'maps': ('dict_str_int', 'struct_lit_dc', 'dc_ab', 'dc_a', 'dc_abc_defaults', 'dict_any'),
    'mixed': ('none', 'int', 'str', 'list_int', 'dict_str_int', 'any', 'bool', 'float'),
}


def _dc(fields, **opts):
    return Ty('dc', spec=ClassM(f"K{next(_serial)}", fields, opts))


def member_ty(name, rng):
    if name in ('bool', 'int', 'float', 'complex', 'decimal', 'fraction', 'str', 'date', 'time', 'datetime', 'none', 'any'):
        return Ty(name)
    if name == 'pattern': return Ty('pattern', of='str')
    if name == 'path': return Ty('path', cls='PurePosixPath')
    if name == 'enum_s': return Ty('enum', members=(('A', 'a'), ('B', '2023-09-05'), ('C', '1/3')))
    if name == 'lit_s': return Ty('lit', vals=('abc', '1.5', 'a'))
    if name == 'list_int': return Ty('list', [Ty('int')])
    if name == 'list_float': return Ty('list', [Ty('float')])
    if name == 'list_any': return Ty('list', [Ty('any')], bare=True)
    if name == 'seq_int': return Ty('seq', [Ty('int')])
    if name == 'set_int': return Ty('set', [Ty('int')], res='set')
    if name == 'tup2': return Ty('tup', [Ty('int'), Ty('int')])
    if name == 'dc_tuple':
        return _dc([FieldM('alpha', Ty('int')), FieldM('count', Ty('int'), 'val', 0)], in_format=('tuple', 'struct'))
    if name == 'dict_str_int': return Ty('dict', [Ty('str'), Ty('int')])
    if name == 'dict_any': return Ty('dict', [Ty('any'), Ty('any')], bare=True)
    if name == 'struct_lit_dc':
        return _dc([FieldM('alpha', Ty('int')), FieldM('count', Ty('float'), 'val', 1.5)], allow_extra=True)
    if name == 'dc_ab': return _dc([FieldM('alpha', Ty('int')), FieldM('count', Ty('int'))])
    if name == 'dc_a': return _dc([FieldM('alpha', Ty('int'))])
    if name == 'dc_abc_defaults':
        return _dc([FieldM('alpha', Ty('float')), FieldM('count', Ty('int'), 'val', 7), FieldM('data', Ty('str'), 'val', 'd')])
    raise ValueError(name)


POOL_VALUES = (
    True, False, 0, 1, 5, 2 ** 63, 1.0, 2.5, float('nan'), 1 + 2j, 'a', 'abc', '1.5', '1/3', '2023-09-05', '11:11:11',
    '2023-09-05T11:11:11', '', None, [1, 2], (1, 2), [1], [], [1.5, 2], [1, 'x'], {'alpha': 1}, {'alpha': 1, 'count': 2},
    {'alpha': 1, 'count': 2, 'data': 's'}, {'alpha': 1.5}, {'a': 1}, {}, {'alpha': 1, 'zz': 0}, [1, 2, 3], b'ab', 10 ** 400,
)


def gen_split_literals(rng):
    """Two Literal members with a non-literal member BETWEEN them that also reads the later literal's value (and images it differently)."""
    first, mid, later = rng.choice((
        (('auto',), 'float', (0, 1)), ((0,), 'float', (1, 2)), (('today',), 'date', ('2023-09-05',)), (('none',), 'path', ('-', 'a/b')),
        ((True,), 'int', (5,)), (('x',), 'fraction', ('1/3', 2)), (('a',), 'decimal', ('1.5',)), ((1,), 'complex', (2,)),
    ))
    ms = [Ty('lit', vals=first), member_ty(mid, rng), Ty('lit', vals=later)]
    if rng.random() < 0.3:
        ms.insert(rng.randint(0, 3), Ty('none'))
    return Ty('union', ms)


def gen_union(ctx, rng):
    if rng.random() < 0.08:
        return gen_split_literals(rng)
    fam = rng.choice(sorted(FAMILIES))
    names = list(FAMILIES[fam])
    n = rng.choice((2, 2, 3, 3, 4))
    if rng.random() < 0.25:
        # random members from the general grammar mixed in
        ms = [member_ty(nm, rng) for nm in rng.sample(names, min(n - 1, len(names)))]
        ms.append(gentypes.gen_type(rng, 2, lit_ok=False))
    else:
        ms = [member_ty(nm, rng) for nm in rng.sample(names, min(n, len(names)))]
    flat = []
    for m in ms:
        flat.extend(m.a if m.k == 'union' else [m])
    flat = gentypes.dedupe_members(flat)
    if rng.random() < 0.3 and not any(m.k == 'none' for m in flat):
        flat.insert(rng.randint(0, len(flat)), Ty('none'))
    if len(flat) < 2:
        flat.append(Ty('none') if flat[0].k != 'none' else Ty('int'))
    rng.shuffle(flat)
    return Ty('union', flat)


def first_success(members_py, v):
    """Run the members one by one on the real code. Returns (index, Outcome) of the first success or (None, None)."""
    for j, A in enumerate(members_py):
        out = observe(env.from_data, v, A)
        if out.kind == 'value':
            return j, out
        if out.kind == 'escape':
            return 'escape', out
    return None, None


def make_hook(ctx):
    UC = env.m_converters.UnionConverter

    def ob(conv, val, outcome, result, exc):
        if monitors.defining_class(conv) != 'UnionConverter' or outcome == 'other':
            return
        ctx.count('hook_checked')
        exp, exp_i = None, None
        for j, c in enumerate(conv.converters):
            try:
                r = c.try_convert(val)
            except env.ParseInterrupt:
                continue
            except Exception:
                return   # escapes are C04's business
            try:
                exp = conv.construct(r, j)
            except Exception:
                continue
            exp_i = j
            break
        cur = drive.current
        if (exp_i is None) != (outcome == 'pi'):
            ctx.violation('hook:union-succeeds-iff-a-member-does', cur.get('sub'), cur.get('case'),
                          {'converter': short(conv, 300), 'value': short(val, 300), 'union_outcome': outcome, 'first_accepting_member': exp_i,
                           'top_type': cur.get('tdesc')}, mech='hook-accept-mismatch')
        elif exp_i is not None:
            ok, why = deep_typed_eq(exp, result)
            if not ok:
                ctx.violation('hook:leftmost-member-wins', cur.get('sub'), cur.get('case'),
                              {'converter': short(conv, 300), 'value': short(val, 300), 'union_result': short(result, 200),
                               'first_accepting_member': exp_i, 'its_result': short(exp, 200), 'why': why, 'top_type': cur.get('tdesc')},
                              mech='hook-not-leftmost')
    return ob


def run(ctx):
    monitors.install()
    monitors.observers.append(make_hook(ctx))

    def check_union(i, rng, uty, U, v, sub='main'):
        members_py = t.get_args(U)
        if len(members_py) != len(uty.a):
            ctx.count('spelling_collapsed')
            return
        drive.current['tdesc'] = describe(uty)[:300]
        out = observe(env.from_data, v, U)
        j, mo = first_success(members_py, v)
        if j == 'escape' or out.kind == 'escape':
            ctx.count('escapes_skipped')
            return
        ctx.count('boundary_checked')
        accepting = [k for k, A in enumerate(members_py) if observe(env.from_data, v, A).kind == 'value']
        if len(accepting) > 1:
            ctx.count('overlap_values')
        if j not in (None, 0):
            ctx.count('winner_not_first')
        ctx.case((tuple(m.k for m in uty.a), genval.skeleton(v, 3), j),
                 sample={'union': describe(uty)[:200], 'spelled': short(U, 200), 'value': short(v, 120), 'winner': j, 'accepting_members': accepting})
        wit = {'union': describe(uty), 'spelled': short(U, 300), 'value': short(v, 300), 'union_outcome': out.brief(),
               'first_accepting_member': j, 'member_outcome': mo.brief() if mo else None, 'accepting_members': accepting}
        if (j is None) != (out.kind != 'value'):
            ctx.violation('union-succeeds-iff-a-member-does', sub, i, wit, mech='accept-mismatch')
            return
        if j is None:
            return
        ok, why = deep_typed_eq(mo.val, out.val)
        ok2, _ = deep_typed_eq(out.val, mo.val)
        if not (ok and ok2):
            wit['why'] = why
            ctx.violation('leftmost-member-wins', sub, i, wit, mech='not-leftmost')
            return
        # serialisation: into_data(x, U) is into_data(x, A_k) for some member that accepts x, and re-parses to x
        x = out.val
        d = observe(env.into_data, x, U)
        ctx.count('serialise_checked')
        if d.kind != 'value':
            # a union problem only if some member that accepts x can serialise it on its own
            own_ok = any(observe(env.into_data, x, A).kind == 'value' for A in members_py
                         if observe(env.convert, x, A).kind == 'value')
            if own_ok:
                ctx.violation('serialise-uses-accepting-member', sub, i, {**wit, 'into_data': d.brief()}, mech='into_data-raised')
            else:
                ctx.count('member_itself_cannot_serialise')
            return
        # a member "accepts" the typed value when its own fast pass takes it, or when convert(x, A_k) gives x back
        strict, loose = [], []
        for k, A in enumerate(members_py):
            conv_k = env.make_converter(A)
            with monitors.guard():
                fast_ok = observe(conv_k.try_convert, x).kind == 'value'
            c = observe(env.convert, x, A)
            gives_back = c.kind == 'value' and deep_typed_eq(c.val, x)[0] and deep_typed_eq(x, c.val)[0]
            if fast_ok or gives_back:
                dk = observe(env.into_data, x, A)
                if dk.kind == 'value':
                    (strict if gives_back else loose).append((k, dk.val))
        candidates = strict + loose
        # an instance of a pane dataclass that IS one of the members belongs to that member: it is written the way that class writes it
        # (another dataclass member whose fast pass lets foreign instances through must not claim it)
        owner = next((A for A in members_py if isinstance(A, type) and hasattr(A, '__pane_info__') and type(x) is A), None)
        if owner is not None:
            own = observe(env.into_data, x, owner)
            ctx.count('serialise_owned_instances')
            if own.kind == 'value' and not same_data(d.val, own.val):
                ctx.violation('serialise-uses-accepting-member', sub, i,
                              {**wit, 'typed': short(x, 200), 'into_data(x, U)': short(d.val, 200), 'its_own_class_writes': short(own.val, 200)},
                              mech='dataclass-instance-serialised-by-another-member')
                return
        ctx.count('serialise_with_candidates' if candidates else 'serialise_no_candidate')
        if candidates and not any(same_data(d.val, dk) for _, dk in candidates):
            ctx.violation('serialise-uses-accepting-member', sub, i,
                          {**wit, 'typed': short(x, 200), 'into_data(x, U)': short(d.val, 200),
                           'members_accepting_x': short(candidates, 300)}, mech='serialised-by-non-accepting-member')

    holders = {}

    def check_through_constructor(i, uty, U, v):
        """The same union as a dataclass field, the value handed to the checked constructor: same verdict, same member, same image."""
        from ..entrypoints import _only_plain_carriers
        if not _only_plain_carriers(v):
            return
        H = holders.get(id(U))
        if H is None:
            try:
                H = type(f"KU{next(_serial)}", (env.PaneBase,), {'__annotations__': {'alpha': U, 'n': int}, 'n': 0, '__module__': __name__})
            except Exception:
                return
            holders.clear()
            holders[id(U)] = H
        ref = observe(env.from_data, v, U)
        got = observe(H, v)
        if ref.kind == 'escape' or got.kind == 'escape':
            return
        ctx.count('constructor_field_checked')
        ok = ref.kind == got.kind and (ref.kind != 'value' or (deep_typed_eq(ref.val, got.val.alpha)[0] and deep_typed_eq(got.val.alpha, ref.val)[0]))
        if not ok:
            ctx.violation('leftmost-member-wins', 'main', i, {'union': describe(uty), 'value': short(v, 200), 'from_data(v, U)': ref.brief(),
                                                              'Cls(alpha=v) with alpha: U': got.brief()}, mech='constructor-field:differs-from-from_data')

    def check_native_serialise(i, rng, uty, U):
        """Values built natively for each member (not produced through the union): the union can write whatever its own member can."""
        from .. import native
        members_py = t.get_args(U)
        if len(members_py) != len(uty.a):
            return
        for k, m in enumerate(uty.a):
            try:
                x = native.native(m, rng)
            except Exception:
                continue
            own = observe(env.into_data, x, members_py[k])
            if own.kind != 'value':
                continue
            d = observe(env.into_data, x, U)
            ctx.count('native_serialise_checked')
            if d.kind != 'value':
                ctx.violation('serialise-uses-accepting-member', 'main', i, {'union': describe(uty), 'typed': short(x, 200), 'its_member': k,
                                                                             'member_writes': own.brief(), 'union_into_data': d.brief()}, mech='into_data-raised:native-member-value')
                return

    def body(i, rng, uty, U):
        check_native_serialise(i, rng, uty, U)
        vals = []
        for m in uty.a:
            vals.append(genval.member(m, rng))
            if m.k == 'lit':
                vals.extend(m.x['vals'])          # every literal value, so the members in between get to claim them first
        for _ in range(3):
            vals.append(rng.choice(POOL_VALUES))
        vals.append(genval.mutate(rng.choice(vals), rng))
        for v in vals:
            check_union(i, rng, uty, U, v)
            if rng.random() < 0.3:
                check_through_constructor(i, uty, U, v)

    drive.for_each_case(ctx, 'main', ctx.budget, body, gen=gen_union)

    # nested placement: unions at depth inside containers and dataclass fields are reached through the hook
    def body_nested(i, rng, ty, T):
        drive.current['tdesc'] = describe(ty)[:300]
        for _ in range(3):
            cls_, v = genval.case_values(ty, rng)
            out = observe(env.from_data, v, T)
            if out.kind == 'value':
                observe(env.into_data, out.val, T)
            elif out.kind == 'escape':
                # a union that neither succeeds nor reports that no member accepts
                ctx.violation('union-succeeds-iff-a-member-does', 'nested', i,
                              {'type': describe(ty), 'value': short(v, 300), 'outcome': out.brief()}, mech=f"nested-union-escape:{type(out.exc).__name__}")
                return

    def gen_nested(ctx_, rng):
        u = gen_union(ctx_, rng)
        wrap = rng.choice(('list', 'dict', 'tup', 'dc', 'opt', 'vol'))
        if wrap == 'list': return Ty('list', [u])
        if wrap == 'dict': return Ty('dict', [Ty('str'), u])
        if wrap == 'tup': return Ty('tup', [u, Ty('int')])
        if wrap == 'dc': return _dc([FieldM('alpha', u), FieldM('count', Ty('int'), 'val', 0)])
        if wrap == 'vol':
            # ValueOrList[...] of a union / an optional: the helper's own union then has members that are unions themselves
            return Ty('vol', [rng.choice((Ty('union', [Ty('int'), Ty('float')]), Ty('union', [Ty('int'), Ty('none')]), Ty('union', [Ty('str'), Ty('int')])))])
        return Ty('union', gentypes.dedupe_members([Ty('none')] + list(u.a)))

    drive.for_each_case(ctx, 'nested', ctx.budget // 2, body_nested, gen=gen_nested)

    # a union that only comes into being through type-variable substitution: `value: Union[A, T, B]` in a generic dataclass,
    # subscripted with a member type, with one that repeats a later member, or with a union of its own (flattened in place)
    TV = t.TypeVar('TV')

    def body_generic(i, rng, uty, U):
        members_py = list(t.get_args(U))
        if len(members_py) != len(uty.a):
            ctx.count('spelling_collapsed')
            return
        p = rng.randrange(len(members_py))
        how = rng.choice(('own', 'repeat', 'union'))
        none_at = [j for j, m in enumerate(members_py) if m is type(None)]
        if none_at and rng.random() < 0.5:
            p, how = none_at[0], 'own'
        if how == 'own':
            arg_members = [members_py[p]]
        elif how == 'repeat':
            arg_members = [rng.choice(members_py)]
        else:
            arg_members = rng.sample(members_py, min(2, len(members_py)))
        written = members_py[:p] + [TV] + members_py[p + 1:]
        try:
            ann = {'value': t.Union[tuple(written)]}
            G = types.new_class(f"G{next(_serial)}", (env.PaneBase, t.Generic[TV]), {}, lambda ns: ns.update({'__annotations__': ann, '__module__': __name__}))
            arg = arg_members[0] if len(arg_members) == 1 else t.Union[tuple(arg_members)]
            if arg is type(None) and rng.random() < 0.7:
                arg = None              # `G[None]`, as one writes it: None means NoneType in a subscript
                ctx.count('generic_bound_to_None')
            GA = G[arg]
        except Exception as e:
            ctx.count('generic_unbuildable')
            ctx.mark('generic_build_errors', f"{type(e).__name__}: {str(e)[:80]}")
            return
        runs = [(GA, arg, arg_members)]
        if how == 'union' and len(arg_members) == 2:
            # the same class parametrised a second time with the argument's members the other way round (the two arguments compare
            # equal as types): each parametrisation still tries the members in the order ITS argument was written
            rev = arg_members[::-1]
            arg2 = t.Union[tuple(rev)]
            if list(t.get_args(arg2)) == rev:
                try:
                    runs.append((G[arg2], arg2, rev))
                    ctx.count('generic_reversed_argument_classes')
                except Exception:
                    pass
        vals = [genval.member(m, rng) for m in uty.a] + [rng.choice(POOL_VALUES) for _ in range(3)]
        for GA, arg, arg_members in runs:
            expected = []
            for m in members_py[:p] + arg_members + members_py[p + 1:]:
                if not any(m is e_ or m == e_ for e_ in expected):
                    expected.append(m)
            for v in vals:
                out = observe(GA.from_data, {'value': v})
                j, mo = first_success(expected, v)
                if j == 'escape' or out.kind == 'escape':
                    ctx.count('escapes_skipped')
                    continue
                ctx.count('generic_union_checked')
                ctx.case(('generic', how, tuple(m.k for m in uty.a), p, j), nontrivial=True)
                wit = {'written': short(t.Union[tuple(written)], 300), 'argument': short(arg, 200), 'expected_members_in_order': short(expected, 300),
                       'value': short(v, 200), 'outcome': out.brief(), 'first_accepting_member': j, 'member_outcome': mo.brief() if mo else None}
                if (j is None) != (out.kind != 'value'):
                    ctx.violation('union-succeeds-iff-a-member-does', 'generic', i, wit, mech='generic-substitution:accept-mismatch')
                    return
                if j is None:
                    continue
                ok, why = deep_typed_eq(mo.val, out.val.value)
                ok2, _ = deep_typed_eq(out.val.value, mo.val)
                if not (ok and ok2):
                    ctx.violation('leftmost-member-wins', 'generic', i, {**wit, 'why': why}, mech='generic-substitution:not-leftmost')
                    return

    drive.for_each_case(ctx, 'generic', ctx.budget // 3, body_generic, gen=gen_union)

    # the same members in two orders, each inside a wrapper that compares equal for both (PEP 585 generics and type literals are
    # not cached by typing, but `list[Union[A, B]] == list[Union[B, A]]`): each must still go by ITS OWN order, whichever came first
    def body_twins(i, rng, uty, U):
        members_py = list(t.get_args(U))
        if len(members_py) != len(uty.a) or len(members_py) < 2:
            ctx.count('spelling_collapsed')
            return
        orders = [members_py, list(reversed(members_py))]
        if len(members_py) > 2:
            sh = members_py[:]
            rng.shuffle(sh)
            orders.append(sh)
        wrap = rng.choice(('list', 'dict', 'tuple', 'tuplit', 'struct'))
        def wrapped(ms):
            u = t.Union[tuple(ms)]
            if t.get_args(u) != tuple(ms):
                return None
            return {'list': lambda: list[u], 'dict': lambda: dict[str, u], 'tuple': lambda: tuple[u, int], 'tuplit': lambda: (u, int),
                    'struct': lambda: {'k': u}}[wrap]()
        def place(v):
            return {'list': [v], 'dict': {'k': v}, 'tuple': [v, 0], 'tuplit': [v, 0], 'struct': {'k': v}}[wrap]
        def take(x):
            return {'list': lambda: x[0], 'dict': lambda: x['k'], 'tuple': lambda: x[0], 'tuplit': lambda: x[0], 'struct': lambda: x['k']}[wrap]()
        vals = [genval.member(m, rng) for m in uty.a] + [rng.choice(POOL_VALUES) for _ in range(2)]
        rng.shuffle(orders)
        for ms in orders:
            W = wrapped(ms)
            if W is None:
                ctx.count('spelling_collapsed')
                continue
            for v in vals:
                out = observe(env.from_data, place(v), W)
                j, mo = first_success(ms, v)
                if j == 'escape' or out.kind == 'escape':
                    ctx.count('escapes_skipped')
                    continue
                ctx.count('twin_union_checked')
                ctx.case(('twins', wrap, tuple(m.k for m in uty.a), j), nontrivial=True)
                wit = {'type': short(W, 300), 'members_in_order': short(ms, 300), 'value': short(v, 200), 'outcome': out.brief(),
                       'first_accepting_member': j, 'member_outcome': mo.brief() if mo else None}
                if (j is None) != (out.kind != 'value'):
                    ctx.violation('union-succeeds-iff-a-member-does', 'twins', i, wit, mech='reordered-twin:accept-mismatch')
                    return
                if j is None:
                    continue
                got = take(out.val)
                ok, why = deep_typed_eq(mo.val, got)
                ok2, _ = deep_typed_eq(got, mo.val)
                if not (ok and ok2):
                    ctx.violation('leftmost-member-wins', 'twins', i, {**wit, 'why': why}, mech='reordered-twin:not-leftmost')
                    return

    drive.for_each_case(ctx, 'twins', ctx.budget // 3, body_twins, gen=gen_union)

    # a condition on the WHOLE union: the left-most accepting member decides the value, and only then the condition decides the verdict
    # (it is not pushed into the members, where a later member could pass it)
    from .. import conds as C

    def body_conditioned(i, rng, uty, U):
        members_py = list(t.get_args(U))
        if len(members_py) != len(uty.a):
            ctx.count('spelling_collapsed')
            return
        spec = C.with_names(rng.choice(({'op': 'len_range', 'min': 2}, {'op': 'len_range', 'max': 1}, {'op': 'positive'}, {'op': 'nonempty'}, {'op': 'user', 'fn': 'truthy'},
                                        {'op': 'val_range', 'min': 0, 'max': 5}, {'op': 'user', 'fn': 'never'})))
        CU = t.Annotated[U, C.build_cond(spec)]
        if tuple(t.get_args(t.get_args(CU)[0])) != tuple(members_py) or any(a is not b for a, b in zip(t.get_args(t.get_args(CU)[0]), members_py)):
            ctx.count('spelling_collapsed')       # typing's cache answered with an equal Annotated alias whose union has another member order
            return
        pred = C.pred(spec)
        wraps = rng.choice(('top', 'optional', 'list'))
        TT = {'top': CU, 'optional': t.Union[CU, None], 'list': list[CU]}[wraps]
        inner = TT if wraps == 'top' else t.get_args(TT)[0]
        if inner is not CU:
            ctx.count('spelling_collapsed')
            return
        vals = [genval.member(m, rng) for m in uty.a] + [rng.choice(POOL_VALUES) for _ in range(3)] + [[7, 7], [1], 'ab', 0, -1, 3]
        for v in vals:
            if wraps == 'optional' and v is None:
                continue
            out = observe(env.from_data, [v] if wraps == 'list' else v, TT)
            j, mo = first_success(members_py, v)
            if j == 'escape' or out.kind == 'escape':
                ctx.count('escapes_skipped')
                continue
            holds = None
            if j is not None:
                p_ = observe(lambda: bool(pred(mo.val)))       # (an array-valued comparison has no truth value: a raising predicate)
                holds = p_.kind == 'value' and p_.val
            expect_ok = j is not None and holds
            ctx.count('conditioned_union_checked')
            ctx.case(('conditioned-union', spec['op'], wraps, expect_ok, out.kind), nontrivial=True)
            wit = {'type': short(TT, 300), 'value': short(v, 200), 'outcome': out.brief(), 'first_accepting_member': j,
                   'its_value': mo.brief() if mo else None, 'condition_holds_on_it': holds}
            if (out.kind == 'value') != bool(expect_ok):
                ctx.violation('leftmost-member-wins', 'conditioned', i, wit, mech='condition-on-union:' + ('later-member-or-unconditioned-value-accepted' if out.kind == 'value' else 'refused'))
                return
            if expect_ok:
                got = out.val[0] if wraps == 'list' else out.val
                if not (deep_typed_eq(mo.val, got)[0] and deep_typed_eq(got, mo.val)[0]):
                    ctx.violation('leftmost-member-wins', 'conditioned', i, wit, mech='condition-on-union:not-leftmost')
                    return

    drive.for_each_case(ctx, 'conditioned', ctx.budget // 4, body_conditioned, gen=gen_union)

    if ctx.tier == 'thorough':
        # all permutations of <=4 members per family
        def body_perm(i, rng, ty, T):
            fam = sorted(FAMILIES)[i % len(FAMILIES)]
            names = rng.sample(FAMILIES[fam], min(rng.choice((2, 3, 4)), len(FAMILIES[fam])))
            base = gentypes.dedupe_members([member_ty(nm, rng) for nm in names])
            if len(base) < 2:
                return
            vals = [genval.member(m, rng) for m in base] + [rng.choice(POOL_VALUES) for _ in range(3)]
            for perm in itertools.permutations(base):
                uty = Ty('union', list(perm))
                U = build(uty, rng)
                for v in vals:
                    check_union(i, rng, uty, U, v, sub='perm')
            ctx.count('permutation_families')

        drive.for_each_case(ctx, 'perm', ctx.budget // 20, body_perm, gen=lambda c, r: Ty('int'))
    monitors.observers.clear()


def _norm(d):
    """Interchange data with scalar subclasses reduced to their base kind (the scalar bypass returns them as they are)."""
    import collections.abc
    for base in (bool, int, float, complex, str, bytes):
        if isinstance(d, base):
            return base(d)
    if isinstance(d, collections.abc.Mapping):
        return {(_norm(k) if not isinstance(k, tuple) else tuple(map(_norm, k))): _norm(x) for k, x in d.items()}
    if isinstance(d, tuple):
        return tuple(map(_norm, d))
    if isinstance(d, list):
        return list(map(_norm, d))
    return d


def same_data(a, b):
    try:
        return deep_typed_eq(_norm(a), _norm(b))[0]
    except Exception:
        return False
