"""C10 — results are independent of call history (memoisation is transparent), on one or several threads."""
import collections
import gc
import fractions
import pathlib
import itertools
import sys
import threading
import time
import typing as t

from .. import env, genval, gentypes, model, drive
from ..common import observe, same_outcome, build_type
from ..ctx import short
from ..deepeq import deep_typed_eq
from ..tyast import Ty, FieldM, ClassM, describe, build, _serial

PLAN = {
    'quick': {'shards': 16, 'budget': 60, 'timeout': 1200},
    'thorough': {'shards': 64, 'budget': 400, 'timeout': 7200},
}
LEVEL = 'exploration'
TECHNIQUE = "runtime monitoring of call histories: class-level hook on KeyCache.__call__ (stale-hit invariant), fresh-build differential per conversion step, threaded histories with sys.monitoring yield injection inside the cache code, structural invariants of the LRU ring at quiescent points"
RULE = ("random histories (10-80 ops) over {make fresh type object in a random spelling, convert, convert with custom handlers "
        "(stable function / tuple / dict form), drop type, gc.collect, allocate-and-drop noise aliases} with ephemeral type objects "
        "(PEP 585 aliases, tuple/struct literals, typing aliases, generic dataclass subscriptions, Annotated); every step's outcome "
        "must equal that of a converter freshly built with an empty cache; every cache hit must hand back a converter built for a "
        "structurally identical type; 2-12 threads replay tables of (type, value, expected) with yield injection in KeyCache.__call__ "
        "and make_converter; KeyCache LRU mode (maxsize 0-8): all op sequences up to length 6 over maxsize+2 keys enumerated, plus "
        "threaded runs, results must equal f(args) and the ring must stay consistent; >256 parametrisations of a generic dataclass. "
        "distinct = (op bigram classes, type skeletons, thread counts)")
ASSUMPTIONS = ["CPython scheduler + injected yields produce the interleavings; a clean run is 'no wrong answer in N histories with M concurrent misses', not data-race freedom",
               "the monitor keeps only strings and ints about type objects (holding a reference would hide id recycling)"]
ANCHORS = ['util:KeyCache.__call__', 'util:KeyCache.__init__', 'convert:_make_converter_key_f', 'convert:make_converter',
           'convert:ConverterHandlers._process', 'classes:_make_subclass']
MIN_COUNTERS = {'quick': {'histories': 600, 'history_steps': 15000, 'cache_hits': 3000, 'cache_misses': 3000, 'types_dropped': 2000,
                          'fresh_build_comparisons': 5000, 'threaded_conversions': 20000, 'yields_injected': 2000,
                          'lru_sequences': 20000, 'lru_threaded_calls': 5000, 'generic_parametrisations': 300, 'shared_handler_object_sequences': 100, 'none_order_twins': 50, 'late_registration_checks': 50}}

# ---- the in-cache monitor -----------------------------------------------------------------------------------------------------
mon_lock = threading.Lock()
built_for = {}            # (id(ty), repr(handlers)) -> structural description at build time   (strings and ints only)
stats = collections.Counter()
stale = []
_orig_call = None


def structural(ty):
    """Structural description of a type object: a string, never a reference."""
    try:
        if isinstance(ty, tuple):
            return 'T(' + ','.join(structural(x) for x in ty) + ')'
        if isinstance(ty, dict):
            return 'S{' + ','.join(f"{k}:{structural(v)}" for k, v in ty.items()) + '}'
        s = getattr(ty, '_pv_serial', None)
        if s is not None:
            return f"cls#{s}"
        if isinstance(ty, type):
            return f"{ty.__module__}.{ty.__qualname__}#{getattr(ty, '_pv_uid', '')}"
        return repr(ty)
    except Exception:
        return '<undescribable>'


def install_cache_monitor():
    global _orig_call
    KC = env.m_util.KeyCache
    if _orig_call is not None:
        return
    _orig_call = KC.__call__
    mc = env.make_converter

    def __call__(self, *args, **kwargs):
        if self is not mc:
            return _orig_call(self, *args, **kwargs)
        ty = args[0] if args else kwargs.get('ty')
        handlers = args[1] if len(args) > 1 else kwargs.get('handlers')
        try:
            was_hit = self.key_f(*args, **kwargs) in self.cache
        except Exception:
            was_hit = None
        result = _orig_call(self, *args, **kwargs)
        desc = structural(ty)
        k = (id(ty), repr(handlers))
        with mon_lock:
            if was_hit:
                stats['hits'] += 1
                prev = built_for.get(k)
                if prev is not None and prev != desc:
                    stale.append((prev, desc))
            elif was_hit is False:
                stats['misses'] += 1
                built_for[k] = desc
        return result

    KC.__call__ = __call__


def fresh_outcome(T, v, custom=None):
    """Outcome of a converter freshly built with an empty cache (the statement's second sentence, literally)."""
    mc = env.make_converter
    saved = mc.cache
    mc.cache = {}
    try:
        conv = mc.inner_f(T, env.ConverterHandlers.make(custom))
        return observe(conv.convert, v)
    except Exception as e:
        from ..common import Outcome
        return Outcome('escape', exc=e)
    finally:
        mc.cache = saved


# ---- yield injection --------------------------------------------------------------------------------------------------------------
YIELD_TOOL = 4
yields = [0]


def install_yield_injection(p=0.15):
    mon = sys.monitoring
    try:
        mon.use_tool_id(YIELD_TOOL, 'pv-yield')
    except ValueError:
        return False
    import random
    rnd = random.Random(12345)

    def on_line(code, lineno):
        if rnd.random() < p:
            yields[0] += 1
            time.sleep(0)

    mon.register_callback(YIELD_TOOL, mon.events.LINE, on_line)
    codes = [_orig_call.__code__, env.make_converter.inner_f.__code__, env.m_convert._make_converter_key_f.__code__]
    tk = getattr(env.m_convert, '_TypeKey', None)
    if tk is not None:
        codes += [tk.__init__.__code__, tk.__hash__.__code__, tk.__eq__.__code__]
    for c in codes:
        mon.set_local_events(YIELD_TOOL, c, mon.events.LINE)
    return True


def remove_yield_injection():
    try:
        sys.monitoring.free_tool_id(YIELD_TOOL)
    except Exception:
        pass


# ---- ephemeral types ------------------------------------------------------------------------------------------------------------------
def gen_ephemeral(rng):
    """Type ASTs whose Python objects are created per use and die when dropped."""
    c = rng.random()
    leaf = lambda: Ty(rng.choice(('int', 'str', 'float', 'bool', 'none', 'bytes')))
    if c < 0.2: return Ty('list', [leaf()])
    if c < 0.35: return Ty('dict', [Ty('str'), leaf()])
    if c < 0.5: return Ty('tup', [leaf() for _ in range(rng.choice((1, 2, 3)))])
    if c < 0.6: return Ty('struct', [leaf(), leaf()], keys=('alpha', 'count'))
    if c < 0.7: return Ty('seq', [leaf()])
    if c < 0.8: return Ty('set', [Ty(rng.choice(('int', 'str')))], res='set')
    if c < 0.9: return Ty('union', gentypes.dedupe_members([leaf(), leaf(), Ty('none')])) if rng.random() < 0.5 else Ty('list', [Ty('list', [leaf()])])
    return gentypes.gen_type(rng, 2)


def gen_twins(rng):
    """Two type ASTs that differ only in the order of a union's members, inside a wrapper whose Python object is NOT cached by typing
    (PEP 585 generics, tuple and struct literals): `==` on the objects says equal, the converters must differ (1 -> 1 vs 1 -> 1.0)."""
    a, b = rng.choice(((Ty('int'), Ty('float')), (Ty('float'), Ty('complex')), (Ty('str'), Ty('path', cls='PurePosixPath')),
                       (Ty('int'), Ty('fraction')), (Ty('bool'), Ty('int')), (Ty('str'), Ty('date'))))
    extra = [Ty('none')] if rng.random() < 0.4 else []
    u1, u2 = Ty('union', [a, b] + extra), Ty('union', [b, a] + extra)
    w = rng.choice(('list', 'dict', 'tup', 'struct', 'tuplit', 'seq', 'nest'))
    def wrap(u):
        if w == 'list': return Ty('list', [u])
        if w == 'dict': return Ty('dict', [Ty('str'), u], res='dict')
        if w == 'tup': return Ty('tup', [u, Ty('str')])
        if w == 'struct': return Ty('struct', [u, Ty('str')], keys=('alpha', 'count'))
        if w == 'tuplit': return Ty('tup', [u, Ty('str')], literal=True)
        if w == 'seq': return Ty('seq', [u])
        return Ty('list', [Ty('tup', [Ty('int'), u])])
    return [wrap(u1), wrap(u2)]


def gen_shared_value_union(rng):
    """A union whose members produce values of ONE Python type (two list types, two tuple types): serialising must still pick per value."""
    a, b = rng.choice(((Ty('int'), Ty('float')), (Ty('int'), Ty('str')), (Ty('fraction'), Ty('int')), (Ty('date'), Ty('str'))))
    c = rng.random()
    if c < 0.4: return Ty('union', [Ty('list', [a]), Ty('list', [b])])
    if c < 0.7: return Ty('union', [Ty('tup', [a, a]), Ty('tup', [b, b])])
    return Ty('union', [Ty('dict', [Ty('str'), a], res='dict'), Ty('dict', [Ty('str'), b], res='dict')])


def stamps_of(x, depth=0):
    from . import c18
    if isinstance(x, c18.Stamp):
        return [x.source]
    out = []
    if depth < 6:
        if isinstance(x, collections.abc.Mapping):
            for k, v in x.items():
                out += stamps_of(k, depth + 1) + stamps_of(v, depth + 1)
        elif isinstance(x, (list, tuple, set, frozenset, collections.deque)):
            for v in x:
                out += stamps_of(v, depth + 1)
        elif hasattr(x, '__pane_info__'):
            for f in type(x).__pane_info__.fields:
                out += stamps_of(getattr(x, f.name, None), depth + 1)
    return out


def stamp_handler(tag):
    from . import c18
    conv = c18.StampConv(tag)

    def h(ty, args, *, handlers):
        return conv if ty is int else NotImplemented
    return h


H_STABLE = None


def run(ctx):
    global H_STABLE
    install_cache_monitor()
    from . import c18
    H_STABLE = stamp_handler('stable')
    H_TUPLE = (stamp_handler('tuple-a'), stamp_handler('tuple-b'))
    keep_noise = []

    # ================= 1. single-threaded histories with the fresh-build differential ======================================================
    def history(i, rng, ty_unused, T_unused):
        slots = {}
        shared = {int: c18.StampConv('shared-v0')}      # one custom= mapping reused (and edited) across the history
        n_ops = rng.randint(10, 80)
        pool = [gen_ephemeral(rng) for _ in range(rng.randint(2, 6))]
        if rng.random() < 0.6:
            pool += gen_twins(rng)
        if rng.random() < 0.4:
            pool.append(gen_shared_value_union(rng))
        typed = []          # (ty, T, typed value, custom) of earlier successes: serialised again later, against a freshly built converter
        prev_op = None
        ctx.count('histories')
        for step in range(n_ops):
            op = rng.choice(('mk', 'mk', 'conv', 'conv', 'conv', 'conv_custom', 'conv_custom', 'edit_shared', 'drop', 'gc', 'noise', 'conv_fresh_obj', 'ser', 'ser'))
            ctx.count('history_steps')
            ctx.case((prev_op, op), nontrivial=True)
            prev_op = op
            if op == 'mk' or (op.startswith('conv') and not slots and op != 'conv_fresh_obj'):
                ty = rng.choice(pool)
                T, err = build_type(ty, rng)
                if err is None:
                    slots[rng.randrange(6)] = (ty, T)
                    ctx.count('types_created')
                continue
            if op == 'ser':
                if not typed:
                    continue
                ty, T, x, custom = rng.choice(typed)
                got = observe(env.into_data, x, T, custom=custom)
                mc = env.make_converter
                saved, mc.cache = mc.cache, {}
                try:
                    want = observe(lambda: mc.inner_f(T, env.ConverterHandlers.make(custom)).into_data(x))
                finally:
                    mc.cache = saved
                ctx.count('fresh_build_serialisations')
                ok, why = same_outcome(want, got)
                if not ok:
                    ctx.violation('memoised-equals-freshly-built', 'history', i,
                                  {'type': describe(ty), 'py_type': short(T, 200), 'typed_value': short(x, 200), 'custom': short(custom, 80), 'step': step,
                                   'memoised_into_data': got.brief(), 'fresh_into_data': want.brief(), 'why': why}, mech='into_data-differs-from-fresh-build')
                    return
                continue
            if op == 'drop':
                if slots:
                    del slots[rng.choice(sorted(slots))]
                    ctx.count('types_dropped')
                continue
            if op == 'gc':
                gc.collect()
                continue
            if op == 'edit_shared':
                if rng.random() < 0.3:
                    shared.pop(int, None)
                else:
                    shared[int] = c18.StampConv(f"shared-v{step}")
                ctx.count('shared_custom_edits')
                continue
            if op == 'noise':
                for _ in range(rng.randint(1, 30)):
                    x = rng.choice((list[int], dict[str, float], tuple[int, str], (int, str), {'a': int}, t.List[rng.choice((int, str, bytes, bool))],
                                    set[str], list[list[int]]))
                    observe(env.make_converter, x)
                ctx.count('types_dropped', 10)
                continue
            if op == 'conv_fresh_obj':
                ty = rng.choice(pool)
                T, err = build_type(ty, rng)
                if err is not None:
                    continue
                ctx.count('types_created')
                ctx.count('types_dropped')
            else:
                ty, T = slots[rng.choice(sorted(slots))]
            cls_, v = genval.case_values(ty, rng, small=True)
            custom = None
            if op == 'conv_custom':
                # dict literals get a tag of their own each time: a handler table remembered by the dict's id() would serve an older one
                custom = rng.choice((H_STABLE, H_TUPLE, {int: c18.StampConv(f'dict-form-{i}-{step}')}, {int: c18.StampConv(f'dict-form-{i}-{step}')},
                                     [H_STABLE], shared, shared))
            got = observe(env.from_data, v, T, custom=custom)
            if isinstance(custom, dict) and got.kind == 'value':
                allowed = {custom[int].source} if int in custom else set()
                seen = set(stamps_of(got.val))
                ctx.count('stamp_sources_checked')
                if not seen <= allowed:
                    ctx.violation('handlers-are-those-of-this-call', 'history', i,
                                  {'type': describe(ty), 'value': short(v, 200), 'custom_given': short(custom, 120), 'stamps_in_result': sorted(seen), 'step': step},
                                  mech='stamps-from-another-call')
                    return
            want = fresh_outcome(T, v, custom)
            ctx.count('fresh_build_comparisons')
            ok, why = same_outcome(want, got)
            if not ok:
                ctx.violation('memoised-equals-freshly-built', 'history', i,
                              {'type': describe(ty), 'py_type': short(T, 200), 'value': short(v, 200), 'custom': short(custom, 80), 'step': step,
                               'memoised': got.brief(), 'fresh': want.brief(), 'why': why}, mech='differs-from-fresh-build')
                return
            if stale:
                prev, desc = stale[0]
                ctx.violation('cache-hit-for-identical-type', 'history', i, {'built_for': prev[:200], 'handed_to': desc[:200], 'step': step}, mech='stale-hit')
                del stale[:]
                return
            if got.kind == 'value' and len(typed) < 12:
                typed.append((ty, T, got.val, custom))

    drive.for_each_case(ctx, 'history', ctx.budget, history, gen=lambda c, r: Ty('int'), seconds=120)

    # ================= 2. threads ===========================================================================================================
    def threaded(i, rng, ty_unused, T_unused):
        table = []
        for _ in range(12):
            ty = gen_ephemeral(rng)
            T, err = build_type(ty)
            if err is not None:
                continue
            for _ in range(3):
                cls_, v = genval.case_values(ty, rng, small=True)
                table.append((ty, v, fresh_outcome(T, v)))
        if not table:
            return
        nthreads = rng.choice((2, 4, 8, 12))
        errors, done = [], [0]
        lock = threading.Lock()
        old_si = sys.getswitchinterval()
        sys.setswitchinterval(1e-6)
        injected = install_yield_injection(p=rng.choice((0.05, 0.15, 0.4)))
        barrier = threading.Barrier(nthreads)

        def worker(tid):
            import random
            r = random.Random(f"{ctx.seed}/{ctx.shard}/{i}/{tid}")
            try:
                barrier.wait(timeout=30)
            except Exception:
                pass
            for _ in range(60):
                ty, v, want = r.choice(table)
                T, err = build_type(ty, r)     # (skips aliases that typing's cache handed back with another member order)
                if err is not None:
                    continue
                got = observe(env.from_data, v, T)
                ok, why = same_outcome(want, got)
                with lock:
                    done[0] += 1
                    if not ok and len(errors) < 3:
                        errors.append({'type': describe(ty), 'py_type': short(T, 200), 'value': short(v, 200), 'thread': tid, 'threads': nthreads,
                                       'got': got.brief(), 'expected': want.brief(), 'why': why})
                del T
                if r.random() < 0.05:
                    gc.collect()

        ths = [threading.Thread(target=worker, args=(k,), daemon=True) for k in range(nthreads)]
        t0 = time.time()
        for th in ths:
            th.start()
        for th in ths:
            th.join(timeout=120)
        if injected:
            remove_yield_injection()
        sys.setswitchinterval(old_si)
        if any(th.is_alive() for th in ths):
            ctx.note_inconclusive(f"threaded history {i}: watchdog (threads still running after 120 s)")
            return
        ctx.count('threaded_histories')
        ctx.count('threaded_conversions', done[0])
        ctx.count(f"threads_{nthreads}")
        ctx.case(('threads', nthreads, tuple(sorted({ty.k for ty, _, _ in table}))), nontrivial=True,
                 sample={'threads': nthreads, 'table_entries': len(table), 'conversions': done[0], 'types': sorted({ty.k for ty, _, _ in table})})
        for e in errors[:1]:
            ctx.violation('memoised-equals-freshly-built', 'threads', i, e, mech='threaded-wrong-result')
        if stale:
            prev, desc = stale[0]
            ctx.violation('cache-hit-for-identical-type', 'threads', i, {'built_for': prev[:200], 'handed_to': desc[:200]}, mech='stale-hit')
            del stale[:]

    drive.for_each_case(ctx, 'threads', max(6, ctx.budget // 4), threaded, gen=lambda c, r: Ty('int'), seconds=200)
    ctx.count('yields_injected', yields[0])

    # ================= 3. KeyCache LRU mode ================================================================================================
    key_cache = env.m_util.key_cache
    KEY, PREV, NEXT = env.m_util.KEY, env.m_util.PREV, env.m_util.NEXT

    def ring_problem(c):
        """Structural invariants at a quiescent point; None if fine."""
        if c.maxsize is not None and len(c.cache) > c.maxsize:
            return f"len(cache)={len(c.cache)} > maxsize={c.maxsize}"
        fwd, node, n = [], c._root[NEXT], 0
        while node is not c._root and n <= len(c.cache) + 2:
            fwd.append(node[KEY]); node = node[NEXT]; n += 1
        bwd, node, n = [], c._root[PREV], 0
        while node is not c._root and n <= len(c.cache) + 2:
            bwd.append(node[KEY]); node = node[PREV]; n += 1
        if len(fwd) != len(c.cache) or fwd != bwd[::-1]:
            return f"ring forward={fwd} backward={bwd} cache keys={list(c.cache)}"
        for k, link in c.cache.items():
            if link[KEY] != k:
                return f"cache[{k!r}] holds a link keyed {link[KEY]!r}"
        if set(fwd) != set(c.cache):
            return f"ring keys {fwd} != cache keys {list(c.cache)}"
        return None

    def lru_case(N, seq):
        calls = []
        f = key_cache(lambda x: x, maxsize=N)(lambda x: (calls.append(x), ('val', x))[1])
        for k in seq:
            o = observe(f, k)
            if o.kind != 'value' or o.val != ('val', k):
                return f"call {k!r} in {seq!r}: {o.brief()}"
        return ring_problem(f)

    idx = 0
    for N in (0, 1, 2, 3):
        universe = list(range(N + 2))
        for L in range(1, 7):
            for seq in itertools.product(universe, repeat=L):
                idx += 1
                if idx % ctx.nshards != ctx.shard or not ctx.want('lru', idx):
                    continue
                ctx.count('lru_sequences')
                prob = lru_case(N, seq)
                if prob:
                    ctx.violation('lru-returns-f(args)', 'lru', idx, {'maxsize': N, 'sequence': list(seq), 'problem': prob}, mech=f"lru-maxsize-{N}")
                    break
    ctx.case(('lru-enumeration',), nontrivial=True)
    ctx.exhaustive['KeyCache LRU op sequences: maxsize 0-3, maxsize+2 keys, length <= 6'] = True

    def lru_threaded(i, rng, ty_unused, T_unused):
        N = rng.choice((1, 2, 3, 8))
        f = key_cache(lambda x: x, maxsize=N)(lambda x: (time.sleep(0) if x % 3 == 0 else None, ('val', x))[1])
        errs = []
        old_si = sys.getswitchinterval()
        sys.setswitchinterval(1e-6)
        injected = install_yield_injection(p=0.3)

        def worker(tid):
            import random
            r = random.Random(f"lru/{ctx.seed}/{ctx.shard}/{i}/{tid}")
            for _ in range(150):
                k = r.randrange(N + 3)
                o = observe(f, k)
                if o.kind != 'value' or o.val != ('val', k):
                    errs.append((k, o.brief()))
        ths = [threading.Thread(target=worker, args=(k,), daemon=True) for k in range(8)]
        for th in ths: th.start()
        for th in ths: th.join(timeout=60)
        if injected:
            remove_yield_injection()
        sys.setswitchinterval(old_si)
        if any(th.is_alive() for th in ths):
            ctx.note_inconclusive('lru threaded run: watchdog')
            return
        ctx.count('lru_threaded_calls', 8 * 150)
        ctx.case(('lru-threads', N), nontrivial=True)
        prob = ring_problem(f)
        if errs or prob:
            ctx.violation('lru-returns-f(args)', 'lru-threads', i, {'maxsize': N, 'wrong_results': errs[:3], 'ring': prob}, mech=f"lru-threaded-maxsize-{N}")

    drive.for_each_case(ctx, 'lru-threads', max(5, ctx.budget // 8), lru_threaded, gen=lambda c, r: Ty('int'), seconds=120)

    # ================= 4. generic subclasses beyond the 256-entry cache ======================================================================
    def generic_history(i, rng, ty_unused, T_unused):
        import types as _types
        TV = t.TypeVar('TV')
        G = _types.new_class(f"GH{next(_serial)}", (env.PaneBase, t.Generic[TV]), {},
                             lambda ns: ns.update({'__annotations__': {'x': TV, 'y': int}, 'y': 0, '__module__': __name__}))
        first = G[int]
        old = first(1)
        n = rng.choice((270, 300, 520))
        for j in range(n):
            P = G[t.Literal[j]]
            if j % 97 == 0:
                o = observe(P.from_data, {'x': j})
                if o.kind != 'value':
                    ctx.violation('generic-subclass-history', 'generic', i, {'parametrisation': f"G[Literal[{j}]]", 'outcome': o.brief()}, mech='generic-after-many')
                    return
        ctx.count('generic_parametrisations', n)
        again = G[int]
        new = again(2)
        checks = {
            'still-enforces-int': observe(again.from_data, {'x': 'text'}).kind == 'converr' and observe(first.from_data, {'x': 'text'}).kind == 'converr',
            'accepts-int': observe(again.from_data, {'x': 5}).kind == 'value',
            'equal-across-eviction': (old == again(1)) is True and (again(1) == old) is True,
            'ordered-across-eviction': observe(lambda: old < new).kind == 'value' and observe(lambda: old < new).val is True and observe(lambda: new > old).val is True,
            'hash-equal-across-eviction': hash(old) == hash(again(1)),
        }
        ctx.case(('generic', n, again is first), nontrivial=True, sample={'parametrisations': n, 'same_class_object_again': again is first, 'checks': checks})
        bad = [k for k, v in checks.items() if not v]
        if bad:
            ctx.violation('generic-subclass-history', 'generic', i, {'parametrisations_created': n, 'failed': bad, 'G[int] is the same object': again is first},
                          mech=f"generic:{bad[0]}")

    drive.for_each_case(ctx, 'generic', 3, generic_history, gen=lambda c, r: Ty('int'), seconds=120)

    # generic dataclasses subscripted with arguments that compare equal but mean different things (a union in two member orders,
    # Literal[0, False] / Literal[False, 0]): whichever is seen first, each parametrisation converts by ITS argument
    def generic_twins(i, rng, ty_unused, T_unused):
        import types as _types
        TV = t.TypeVar('TV')
        G = _types.new_class(f"GT{next(_serial)}", (env.PaneBase, t.Generic[TV]), {},
                             lambda ns: ns.update({'__annotations__': {'x': TV}, '__module__': __name__}))
        a, b, v = rng.choice(((int, float, 1), (float, complex, 1.5), (str, pathlib.PurePosixPath, 'a/b'), (bool, int, True), (int, fractions.Fraction, 3)))
        kind = rng.choice(('union', 'optional-union', 'list-of-union', 'literal', 'same-named-classes', 'same-named-classes', 'none-first-or-last', 'none-first-or-last'))
        if kind == 'same-named-classes':
            # two different classes that print alike (made by one factory): a key built from repr() would conflate them
            def unit(ft):
                return type('Unit', (env.PaneBase,), {'__annotations__': {'v': ft}, '__module__': __name__})
            args = [unit(a), unit(b)]
            v = {'v': v}
        elif kind == 'none-first-or-last':
            # Union[None, X] and Union[X, None] PRINT alike (Optional[X]) at any depth: an enum with a None-valued member reads None
            # as the member or as None depending on the order written; bare, inside PEP 585 generics (typing does not cache those) and Annotated
            import enum as _enum
            E = _enum.Enum(f"Maybe{next(_serial)}", {'NOTHING': None, 'ONE': 1})
            wrap = rng.choice(('bare', 'list', 'dict', 'tuple', 'annotated'))
            W = {'bare': lambda u: u, 'list': lambda u: list[u], 'dict': lambda u: dict[str, u], 'tuple': lambda u: tuple[u, int],
                 'annotated': lambda u: t.Annotated[list[u], env.m_annotations.len_range(max=3)]}[wrap]
            args = [W(t.Union[None, E]), W(t.Union[E, None])]
            v = {'bare': None, 'list': [None], 'dict': {'k': None}, 'tuple': [None, 1], 'annotated': [None]}[wrap]
            ctx.count('none_order_twins')
        elif kind == 'union':
            args = [t.Union[a, b], t.Union[b, a]]
        elif kind == 'optional-union':
            args = [t.Union[a, b, None], t.Union[b, a, None]]
        elif kind == 'list-of-union':
            args = [list[t.Union[a, b]], list[t.Union[b, a]]]
            v = [v]
        else:
            args = [t.Literal[0, False], t.Literal[False, 0]]
            v = rng.choice((0, False))
        if rng.random() < 0.5:
            args.reverse()
        for A in args:
            P = observe(lambda: G[A])
            if P.kind != 'value':
                ctx.count('generic_twin_unbuildable')
                return
            got = observe(P.val.from_data, {'x': v})
            want = observe(env.from_data, v, A)       # the argument on its own (a fresh type object each time: no cache can confuse it)
            ctx.count('generic_twin_checks')
            ctx.case(('generic-twins', kind, got.kind), nontrivial=True)
            ok = got.kind == want.kind and (got.kind != 'value' or (deep_typed_eq(want.val, got.val.x)[0] and deep_typed_eq(got.val.x, want.val)[0]))
            if not ok:
                ctx.violation('generic-subclass-history', 'generic-twins', i,
                              {'parametrisations_in_order_seen': [short(x, 120) for x in args], 'this_argument': short(A, 120), 'value': short(v, 80),
                               'through_the_generic_class': got.brief(), 'argument_alone': want.brief()}, mech=f"generic:equal-arguments-share-a-subclass:{kind}")
                return

    drive.for_each_case(ctx, 'generic-twins', max(20, ctx.budget), generic_twins, gen=lambda c, r: Ty('int'), seconds=60)

    # one dataclass used on its own AND as a field of classes with class-level handlers, in either order of first use:
    # standing alone it converts plainly, inside each enclosing class it converts with THAT class's handlers
    def nested_class_handlers(i, rng, ty_unused, T_unused):
        Inner = type(f"NI{next(_serial)}", (env.PaneBase,), {'__annotations__': {'x': int, 's': str}, 's': 'd', '__module__': __name__})
        OuterA = type(f"NA{next(_serial)}", (env.PaneBase,), {'__annotations__': {'inner': Inner, 'y': int}, '__module__': __name__}, custom={int: c18.StampConv('A')})
        OuterB = type(f"NB{next(_serial)}", (env.PaneBase,), {'__annotations__': {'inners': t.List[Inner]}, '__module__': __name__}, custom={int: c18.StampConv('B')})
        uses = [('alone', lambda: Inner.from_data({'x': 1}), lambda r: [r.x], set()),
                ('in-A', lambda: OuterA.from_data({'inner': {'x': 1}, 'y': 2}), lambda r: [r.inner.x, r.y], {'A'}),
                ('in-B', lambda: OuterB.from_data({'inners': [{'x': 1}, {'x': 2}]}), lambda r: [z.x for z in r.inners], {'B'}),
                ('alone-from_data', lambda: env.from_data({'x': 1}, Inner), lambda r: [r.x], set()),
                ('alone-with-call-handler', lambda: env.from_data({'x': 1}, Inner, custom={int: c18.StampConv('call')}), lambda r: [r.x], {'call'})]
        if rng.random() < 0.5:
            # ONE handler object used at call level and as the class-level custom of an enclosing class, around a class with a handler
            # of its own for the same type: at call level it beats the class's own, as an enclosing class's it loses to it
            conv_h, conv_own = c18.StampConv('h'), c18.StampConv('own')

            def h(ty, args, *, handlers):
                return conv_h if ty is int else NotImplemented

            def own(ty, args, *, handlers):
                return conv_own if ty is int else NotImplemented
            Inner2 = type(f"NI{next(_serial)}", (env.PaneBase,), {'__annotations__': {'x': int, 's': str}, 's': 'd', '__module__': __name__}, custom=own)
            Outer2 = type(f"NA{next(_serial)}", (env.PaneBase,), {'__annotations__': {'inner': Inner2, 'y': int}, '__module__': __name__}, custom=h)
            uses = [('own-class-alone', lambda: Inner2.from_data({'x': 1}), lambda r: [r.x], {'own'}),
                    ('call-level-h', lambda: env.from_data({'x': 1}, Inner2, custom=h), lambda r: [r.x], {'h'}),
                    ('inside-class-with-h:inner', lambda: Outer2.from_data({'inner': {'x': 1}, 'y': 2}), lambda r: [r.inner.x], {'own'}),
                    ('inside-class-with-h:outer-field', lambda: Outer2.from_data({'inner': {'x': 1}, 'y': 2}), lambda r: [r.y], {'h'}),
                    ('call-level-h-on-outer', lambda: env.from_data({'inner': {'x': 1}, 'y': 2}, Outer2, custom=h), lambda r: [r.inner.x, r.y], {'h'})]
            ctx.count('shared_handler_object_sequences')
        seq = [rng.choice(uses) for _ in range(rng.randint(4, 9))]
        for step, (name, call, leaves, want) in enumerate(seq):
            o = observe(call)
            ctx.count('nested_class_handler_uses')
            got = set(stamps_of(leaves(o.val))) if o.kind == 'value' else None
            plain = o.kind == 'value' and not want and all(type(z) is int for z in leaves(o.val))
            ctx.case(('nested-class-handlers', name, o.kind), nontrivial=True)
            if o.kind != 'value' or (want and got != want) or (not want and not plain):
                ctx.violation('handlers-are-those-of-this-use', 'nested-class-handlers', i,
                              {'uses_in_order': [n for n, *_ in seq], 'failing_step': step, 'use': name, 'expected_stamps': sorted(want), 'outcome': o.brief(),
                               'stamps_seen': sorted(got) if got is not None else None}, mech='class-converter-shared-across-handler-contexts')
                return

    from . import c18
    drive.for_each_case(ctx, 'nested-class-handlers', max(20, ctx.budget), nested_class_handlers, gen=lambda c, r: Ty('int'), seconds=60)

    # the instance METHODS of related classes (a base and its subclass, two parametrisations of a generic) called in any order: each
    # instance is written by its own class, whatever was written before; and from_yaml_all after an equal-comparing List alias was made
    def related_classes(i, rng, ty_unused, T_unused):
        import io as _io
        import types as _types
        TV = t.TypeVar('TV')
        Base = type(f"RB{next(_serial)}", (env.PaneBase,), {'__annotations__': {'x': int}, '__module__': __name__})
        Child = type(f"RC{next(_serial)}", (Base,), {'__annotations__': {'y': str}, 'y': 'd', '__module__': __name__}, out_rename=rng.choice((None, 'scream')))
        G = _types.new_class(f"RG{next(_serial)}", (env.PaneBase, t.Generic[TV]), {}, lambda ns: ns.update({'__annotations__': {'v': TV}, '__module__': __name__}))
        insts = [Base(1), Child(2, 'z'), G[int](3), G[t.List[int]]([4]), G(5)]
        order = [rng.choice(insts) for _ in range(rng.randint(4, 9))]
        for step, x in enumerate(order):
            want = observe(env.into_data, x, type(x))
            for label, call in (('x.into_data()', x.into_data), ('x.dict()', lambda: {k: v for k, v in x.dict().items()}),
                                ('json.loads(x.write_json())', lambda: json.loads(x.write_json()))):
                got = observe(call)
                ctx.count('related_class_method_calls')
                if label == 'x.dict()':
                    ok = got.kind == 'value' and set(got.val) == {f.name for f in type(x).__pane_info__.fields}
                else:
                    ok = got.kind == 'value' and want.kind == 'value' and got.val == want.val
                ctx.case(('related-classes', label, type(x).__name__[:2], ok), nontrivial=True)
                if not ok:
                    ctx.violation('memoised-equals-freshly-built', 'related-classes', i,
                                  {'instances_in_order': [short(o, 40) for o in order], 'step': step, 'instance': short(x, 80), 'method': label, 'method_result': got.brief(),
                                   'pane.into_data(x, type(x))': want.brief()}, mech='method-result-depends-on-earlier-instances')
                    return
        a, b = rng.choice(((int, float), (bool, int), (str, pathlib.PurePosixPath)))
        first = t.List[t.Union[a, b]]            # merely evaluating the other order's List alias must not matter
        doc = {int: '--- 1\n', bool: '--- true\n', str: '--- a/b\n'}[a]
        r = observe(env.m_io.from_yaml_all, _io.StringIO(doc), t.Union[b, a])
        want = observe(env.from_data, {int: 1, bool: True, str: 'a/b'}[a], t.Union[b, a])
        ctx.count('yaml_all_after_equal_alias')
        if r.kind != 'value' or want.kind != 'value' or len(r.val) != 1 or not (deep_typed_eq(want.val, r.val[0])[0] and deep_typed_eq(r.val[0], want.val)[0]):
            ctx.violation('memoised-equals-freshly-built', 'related-classes', i, {'alias_evaluated_before': short(first, 80), 'type': short(t.Union[b, a], 80), 'document': doc,
                                                                                   'from_yaml_all': r.brief(), 'from_data': want.brief()},
                          mech='from_yaml_all-depends-on-an-earlier-equal-alias')

    import json
    drive.for_each_case(ctx, 'related-classes', max(20, ctx.budget), related_classes, gen=lambda c, r: Ty('int'), seconds=60)

    # a global handler registered AFTER a type was first converted serves that type from then on, exactly as it serves a twin type that
    # is first seen after the registration (once per shard, at the very end: the registration is process-wide and stays)
    def late_registration():
        import enum as _enum
        before = _enum.Enum(f"LateA{next(_serial)}", {'RED': 'red', 'BLUE': 'blue'})
        before._pv_late = True
        HolderB = type(f"LateH{next(_serial)}", (env.PaneBase,), {'__annotations__': {'c': before, 'cs': t.List[before]}, 'cs': env.pfield(default_factory=list), '__module__': __name__})
        early = [observe(env.from_data, 'red', before), observe(HolderB.from_data, {'c': 'red', 'cs': ['blue']}), observe(env.into_data, before.RED, before),
                 observe(env.into_data, [before.RED]), observe(env.into_data, {'k': before.BLUE}), observe(lambda: HolderB.from_data({'c': 'red'}).into_data())]
        conv = c18.StampConv('late')

        def late_handler(ty, args, *, handlers):
            return conv if isinstance(ty, type) and getattr(ty, '_pv_late', False) is True else NotImplemented
        env.m_convert.register_converter_handler(late_handler)
        after = _enum.Enum(f"LateB{next(_serial)}", {'RED': 'red', 'BLUE': 'blue'})
        after._pv_late = True
        HolderA = type(f"LateH{next(_serial)}", (env.PaneBase,), {'__annotations__': {'c': before}, '__module__': __name__})
        rows = [('the type converted before the registration', lambda: env.from_data('red', before)), ('a twin type first seen afterwards', lambda: env.from_data('red', after)),
                ('the earlier dataclass holding the earlier type', lambda: HolderB.from_data({'c': 'red', 'cs': ['blue']}).c),
                ('List of the earlier type', lambda: env.from_data(['red'], t.List[before])[0]), ('a dataclass declared afterwards', lambda: HolderA.from_data({'c': 'red'}).c)]
        out_rows = [('the earlier member in an untyped list', lambda: env.into_data([before.RED])[0]), ('the earlier member as an untyped mapping value', lambda: env.into_data({'k': before.BLUE})['k']),
                    ('typed, on the way out', lambda: env.into_data(before.RED, before)), ('a field of the earlier dataclass, on the way out', lambda: HolderB.make_unchecked(before.RED).into_data()['c'])]
        for label, call in rows:
            o = observe(call)
            ctx.count('late_registration_checks')
            served = o.kind == 'value' and isinstance(o.val, c18.Stamp) and o.val.source == 'late'
            ctx.case(('late-registration', label[:20], served), nontrivial=True)
            if not served:
                ctx.violation('handlers-are-those-of-this-use', 'late-registration', 0, {'use': label, 'outcome': o.brief()[:200], 'conversions_before_the_registration': [e.brief()[:60] for e in early]},
                              mech='global-handler-ignored-for-types-converted-before-registration')
                return
        for label, call in out_rows:
            o = observe(call)
            ctx.count('late_registration_checks')
            served = o.kind == 'value' and isinstance(o.val, list) and o.val[:2] == ['out', 'late']
            ctx.case(('late-registration-out', label[:20], served), nontrivial=True)
            if not served:
                ctx.violation('handlers-are-those-of-this-use', 'late-registration', 0, {'use': label, 'outcome': o.brief()[:200]},
                              mech='global-handler-ignored-for-types-serialised-before-registration')
                return

    try:
        if ctx.want('late-registration', 0) or True:
            late_registration()
    except Exception as e:
        ctx.crash('late-registration', 0, e)

    with mon_lock:
        ctx.count('cache_hits', stats['hits'])
        ctx.count('cache_misses', stats['misses'])
