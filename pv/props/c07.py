"""C07 — error trees localise failures compositionally."""
import typing as t

from .. import env, genval, gentypes, drive, model
from ..common import observe, build_type
from ..ctx import short
from ..deepeq import deep_typed_eq
from ..tyast import Ty, describe, skeleton, build, py_class

PLAN = {
    'quick': {'shards': 16, 'budget': 1500},
    'thorough': {'shards': 64, 'budget': 20000, 'timeout': 7200},
}
LEVEL = 'exploration'
TECHNIQUE = "runtime monitoring: metamorphic oracle — the error tree of every failed conversion is compared, node by node, with the trees the real code reports for each element on its own"
RULE = ("near-members with 1-4 faults at different depths; for each ConvertError the tree is walked together with the type AST and "
        "the value: product children must be keyed by exactly the positions/keys whose element is rejected on its own and equal "
        "that element's own tree, missing/extra/duplicate sets must equal the naming model's, unions have one child per member "
        "in order, tagged unions report the chosen variant's tree, leaves carry the offending sub-value. "
        "distinct = (type skeleton, value skeleton, root node class)")
ASSUMPTIONS = ["element trees are obtained from the real from_data on the sub-value with the element's own type (no model of messages)",
               "mapping nodes: only what the statement demands (child keys between 'value rejected' and 'key or value rejected')"]
ANCHORS = ['converters:UnionConverter.collect_errors', 'converters:StructConverter.collect_errors',
           'converters:TupleConverter.collect_errors', 'converters:DictConverter.collect_errors',
           'converters:SequenceConverter.collect_errors', 'converters:NestedSequenceConverter._collect_errors',
           'classes:PaneConverter.collect_errors_struct', 'classes:PaneConverter.collect_errors_tuple',
           'converters:TaggedUnionConverter.collect_errors', 'converters:ConditionalConverter.collect_errors']
MIN_COUNTERS = {'quick': {'trees_checked': 20000, 'product_nodes': 15000, 'sum_nodes': 3000, 'missing_sets_checked': 1500,
                          'extra_sets_checked': 1500, 'duplicate_children': 50, 'wronglen_nodes': 300}}

E = env.m_errors


def tree_of(ty, v):
    """(tree | None) the real code reports for v alone under ty; 'escape' if something else was raised."""
    T, err = build_type(ty)
    if err is not None:
        return 'escape'
    out = observe(env.from_data, v, T)
    if out.kind == 'value':
        return None
    if out.kind == 'escape':
        return 'escape'
    return out.exc.tree


def same_actual(a, b):
    if a is b:
        return True
    ok, _ = deep_typed_eq(a, b)
    if ok:
        return True
    try:
        return bool(a == b)
    except Exception:
        return False


def tree_eq(a, b, path='$'):
    """Own comparator (nodes' __eq__ is defeated by NaN actuals). Returns (ok, why)."""
    if type(a) is not type(b):
        return False, f"{path}: node {type(b).__name__} != expected {type(a).__name__}"
    if isinstance(a, E.SumErrorNode):
        if len(a.children) != len(b.children):
            return False, f"{path}: {len(b.children)} alternatives != {len(a.children)}"
        for i, (x, y) in enumerate(zip(a.children, b.children)):
            ok, why = tree_eq(x, y, f"{path}|{i}")
            if not ok:
                return ok, why
        return True, ''
    if isinstance(a, E.DuplicateKeyError):
        return (a.key == b.key and tuple(a.aliases) == tuple(b.aliases)), f"{path}: duplicate-key node differs"
    if getattr(a, 'expected', None) != getattr(b, 'expected', None):
        return False, f"{path}: expected {getattr(b, 'expected', None)!r} != {getattr(a, 'expected', None)!r}"
    if not same_actual(getattr(a, 'actual', None), getattr(b, 'actual', None)):
        return False, f"{path}: actual {short(getattr(b, 'actual', None), 80)} != {short(getattr(a, 'actual', None), 80)}"
    if isinstance(a, E.ProductErrorNode):
        if set(a.children) != set(b.children):
            return False, f"{path}: child keys {sorted(map(repr, b.children))} != {sorted(map(repr, a.children))}"
        if set(a.missing) != set(b.missing) or set(a.extra) != set(b.extra):
            return False, f"{path}: missing/extra differ"
        for k in a.children:
            ok, why = tree_eq(a.children[k], b.children[k], f"{path}.{k}")
            if not ok:
                return ok, why
        return True, ''
    if isinstance(a, E.WrongLenError):
        return (tuple(a.expected_len) == tuple(b.expected_len) and a.actual_len == b.actual_len), f"{path}: length info differs"
    if isinstance(a, E.WrongTypeError):
        ca = a._get_cause().splitlines()[-1:] if a.cause else None
        cb = b._get_cause().splitlines()[-1:] if b.cause else None
        return (ca == cb and a.info == b.info), f"{path}: cause/info differ"
    if isinstance(a, E.ConditionFailedError):
        return (a.condition == b.condition and (a.cause is None) == (b.cause is None)), f"{path}: condition node differs"
    return True, ''


class Mismatch(Exception):
    def __init__(self, rule, why):
        self.rule, self.why = rule, why


def is_leaf(node):
    return isinstance(node, (E.WrongTypeError, E.WrongLenError, E.ConditionFailedError))


def check_children(ctx, ty_of, items, node, path, rule):
    """items: list of (child key, sub-type, sub-value). node must be a product node with exactly the failing ones."""
    expected = {}
    for key, cty, cv in items:
        tr = tree_of(cty, cv)
        if tr == 'escape':
            raise Skip()
        if tr is not None:
            expected[key] = tr
    return expected


class Skip(Exception):
    pass


def check(ctx, ty, v, node, path='$', depth=0):
    """Raise Mismatch when `node` is not the tree the statement prescribes for (ty, v)."""
    if depth > 12:
        return
    k = ty.k
    P, S = E.ProductErrorNode, E.SumErrorNode

    def leaf_with_value(rule):
        if not is_leaf(node):
            raise Mismatch(rule, f"{path}: expected a leaf, got {type(node).__name__}")
        if not same_actual(node.actual, v):
            raise Mismatch('leaf-records-offending-value', f"{path}: leaf.actual={short(node.actual, 80)} but the offending value is {short(v, 80)}")
        ctx.count('leaf_nodes')

    def product(items, rule, missing=None, extra=None):
        exp = {}
        for key, cty, cv in items:
            tr = tree_of(cty, cv)
            if tr == 'escape':
                raise Skip()
            if tr is not None:
                exp[key] = (tr, cty, cv)
        if not exp and not missing and not extra:
            # every element is fine on its own: the failure is the container's (constructor / validation hook)
            leaf_with_value(rule + ':container-level')
            return
        if not isinstance(node, P):
            raise Mismatch(rule, f"{path}: expected a product node with children {sorted(map(repr, exp))}, got {type(node).__name__}")
        ctx.count('product_nodes')
        if set(node.children) != set(exp):
            raise Mismatch(rule + ':child-keys', f"{path}: children keyed {sorted(map(repr, node.children))}, elements rejected on their own: {sorted(map(repr, exp))}")
        if missing is not None:
            ctx.count('missing_sets_checked')
            if set(node.missing) != set(missing):
                raise Mismatch(rule + ':missing', f"{path}: missing={set(node.missing)!r}, absent required fields: {set(missing)!r}")
        if extra is not None:
            ctx.count('extra_sets_checked')
            if set(node.extra) != set(extra):
                raise Mismatch(rule + ':extra', f"{path}: extra={set(node.extra)!r}, unknown keys: {set(extra)!r}")
        if not same_actual(node.actual, v):
            raise Mismatch('node-records-value', f"{path}: product.actual differs from the value")
        for key, (tr, cty, cv) in exp.items():
            ok, why = tree_eq(tr, node.children[key], f"{path}.{key}")
            if not ok:
                raise Mismatch(rule + ':child-equals-own-tree', why)
            check(ctx, cty, cv, node.children[key], f"{path}.{key}", depth + 1)

    if k in ('list', 'seq', 'set', 'deque'):
        if not model.is_seq(v):
            return leaf_with_value('sequence:wrong-kind')
        return product([(i, ty.a[0], x) for i, x in enumerate(v)], 'sequence')
    if k == 'tup':
        if not model.is_seq(v) or len(v) != len(ty.a):
            return leaf_with_value('tuple:wrong-kind-or-length')
        return product([(i, c, x) for i, (c, x) in enumerate(zip(ty.a, v))], 'tuple')
    if k in ('dict', 'counter'):
        if not model.is_map(v):
            return leaf_with_value('mapping:wrong-kind')
        kt, vt = ty.a[0], (ty.a[1] if k == 'dict' else Ty('int'))
        if len({str(kk) for kk in v}) != len(v):
            raise Skip()
        lower, upper, val_tree, key_tree = set(), set(), {}, {}
        for kk, vv in v.items():
            tk_, tv_ = tree_of(kt, kk), tree_of(vt, vv)
            if 'escape' in (tk_, tv_):
                raise Skip()
            if tv_ is not None:
                lower.add(str(kk)); upper.add(str(kk)); val_tree[str(kk)] = (tv_, vt, vv)
            elif tk_ is not None:
                upper.add(str(kk)); key_tree[str(kk)] = (tk_, kt, kk)
        if not upper:
            return leaf_with_value('mapping:container-level')
        if not isinstance(node, P):
            raise Mismatch('mapping', f"{path}: expected a product node, got {type(node).__name__}")
        ctx.count('product_nodes')
        got = set(node.children)
        if not (lower <= got <= upper):
            raise Mismatch('mapping:child-keys', f"{path}: children {sorted(got)}; entries with rejected value {sorted(lower)}, with rejected key or value {sorted(upper)}")
        for key in got:
            tr, cty, cv = val_tree.get(key) or key_tree[key]
            ok, why = tree_eq(tr, node.children[key], f"{path}.{key}")
            if not ok:
                raise Mismatch('mapping:child-equals-own-tree', why)
            check(ctx, cty, cv, node.children[key], f"{path}.{key}", depth + 1)
        return
    if k == 'struct':
        if not model.is_map(v):
            return leaf_with_value('struct:wrong-kind')
        keys = ty.x['keys']
        items = [(kk, ty.a[keys.index(kk)], vv) for kk, vv in v.items() if kk in keys]
        return product(items, 'struct', missing={n for n in keys if n not in v}, extra={kk for kk in v if kk not in keys})
    if k == 'union':
        if not isinstance(node, S):
            raise Mismatch('union', f"{path}: expected a sum node, got {type(node).__name__}")
        ctx.count('sum_nodes')
        if len(node.children) != len(ty.a):
            raise Mismatch('union:one-child-per-member', f"{path}: {len(node.children)} children for {len(ty.a)} members")
        for j, (m, child) in enumerate(zip(ty.a, node.children)):
            tr = tree_of(m, v)
            if tr == 'escape':
                raise Skip()
            if tr is None:
                raise Mismatch('union:member-accepts', f"{path}: member {j} accepts the value on its own but the union failed")
            ok, why = tree_eq(tr, child, f"{path}|{j}")
            if not ok:
                raise Mismatch('union:child-equals-member-tree', why)
            check(ctx, m, v, child, f"{path}|{j}", depth + 1)
        return
    if k == 'vol':
        if not isinstance(node, S) or len(node.children) != 2:
            raise Mismatch('union', f"{path}: ValueOrList expects a sum of two")
        ctx.count('sum_nodes')
        for j, m in enumerate((ty.a[0], Ty('list', [ty.a[0]]))):
            tr = tree_of(m, v)
            if tr == 'escape':
                raise Skip()
            ok, why = tree_eq(tr, node.children[j], f"{path}|{j}") if tr is not None else (False, 'member accepts')
            if not ok:
                raise Mismatch('union:child-equals-member-tree', why)
        return
    if k == 'cond':
        inner = tree_of(ty.a[0], v)
        if inner == 'escape':
            raise Skip()
        if inner is not None:
            ok, why = tree_eq(inner, node, path)
            if not ok:
                raise Mismatch('condition:inner-failure-is-inner-tree', why)
            return check(ctx, ty.a[0], v, node, path, depth + 1)
        if not isinstance(node, E.ConditionFailedError):
            raise Mismatch('condition', f"{path}: expected ConditionFailedError, got {type(node).__name__}")
        if not same_actual(node.actual, v):
            raise Mismatch('leaf-records-offending-value', f"{path}: condition node actual differs")
        ctx.count('condition_nodes')
        return
    if k == 'tagged':
        ex = model.tagged_extract(ty, v)
        if ex is None:
            return leaf_with_value('tagged:layout') if not (model.is_map(v) and ty.x['external'] is False) else _leaf_any(ctx, node, path)
        tag, body = ex
        i = model.tagged_variant(ty, tag)
        if i == 'uns':
            raise Skip()
        if i is None:
            if not is_leaf(node) or not same_actual(node.actual, tag):
                raise Mismatch('tagged:unknown-tag-leaf', f"{path}: expected a leaf carrying the tag value {short(tag, 60)}")
            ctx.count('leaf_nodes')
            return
        tr = tree_of(ty.a[i], body)
        if tr == 'escape':
            raise Skip()
        if tr is None:
            raise Mismatch('tagged:variant-accepts', f"{path}: the tagged variant accepts the body on its own")
        ok, why = tree_eq(tr, node, path)
        if not ok:
            raise Mismatch('tagged:tree-is-chosen-variants', why)
        return check(ctx, ty.a[i], body, node, path, depth + 1)
    if k == 'dc':
        return check_dc(ctx, ty, v, node, path, depth, product, leaf_with_value)
    if k == 'ndarray':
        return   # covered as a sequence of leaves by the generic leaf rule below only at the top
    if k == 'enum':
        # a leaf shows the value that was GIVEN (exact kind), not what the members' value type made of it (`1` is not `1.0`)
        if is_leaf(node) and not (node.actual is v or deep_typed_eq(node.actual, v)[0]):
            raise Mismatch('leaf-records-offending-value', f"{path}: enum leaf.actual={short(node.actual, 80)} ({type(node.actual).__name__}) but the value given is "
                                                           f"{short(v, 80)} ({type(v).__name__})")
        ctx.count('enum_leaves')
        return
    if k == 'any':
        return
    # scalar-like leaves
    if isinstance(node, (P, S)):
        raise Mismatch('leaf', f"{path}: scalar type {k} reported a composite node {type(node).__name__}")
    if not same_actual(node.actual, v):
        raise Mismatch('leaf-records-offending-value', f"{path}: leaf.actual={short(node.actual, 80)} but the offending value is {short(v, 80)}")
    ctx.count('leaf_nodes')


def _leaf_any(ctx, node, path):
    if not is_leaf(node):
        raise Mismatch('tagged:absent-tag-leaf', f"{path}: expected a leaf")
    ctx.count('leaf_nodes')


def check_dc(ctx, ty, v, node, path, depth, product, leaf_with_value):
    S = ty.x['spec']
    fields = [f for f in S.ordered_fields() if f.init]
    if model.is_seq(v):
        if 'tuple' not in S.opt('in_format'):
            return leaf_with_value('dataclass:layout-disabled')
        pos = [f for f in fields if not S.is_kw(f)]
        req = sum(1 for f in pos if not f.has_default())
        if not (req <= len(v) <= len(pos)):
            if not isinstance(node, E.WrongLenError):
                raise Mismatch('dataclass:length', f"{path}: expected WrongLenError, got {type(node).__name__}")
            ctx.count('wronglen_nodes')
            if tuple(node.expected_len) != (req, len(pos)) or node.actual_len != len(v) or not same_actual(node.actual, v):
                raise Mismatch('dataclass:length-bounds', f"{path}: bounds {tuple(node.expected_len)} len {node.actual_len}; model says {(req, len(pos))}, {len(v)}")
            return
        return product([(i, f.ty, x) for i, (f, x) in enumerate(zip(pos, v))], 'dataclass-tuple')
    if model.is_map(v):
        if 'struct' not in S.opt('in_format'):
            return leaf_with_value('dataclass:layout-disabled')
        amap, umap = {}, {}
        for f in fields:
            a, u = model.in_names(S, f)
            for n in a: amap.setdefault(n, f)
            for n in u: umap.setdefault(n, f)
        items, extra, seen, dups = [], set(), set(), {}
        for kk, vv in v.items():
            try:
                f = amap.get(kk)
            except TypeError:
                raise Skip()
            if f is None:
                if kk in umap:
                    raise Skip()      # python name where other names are configured: unspecified
                if not S.opt('allow_extra'):
                    extra.add(kk)
                continue
            if f.name in seen:
                dups[kk] = f
                continue
            seen.add(f.name)
            items.append((kk, f.ty, vv))
        missing = {f.name for f in fields if f.name not in seen and not f.has_default()}
        if dups:
            if not isinstance(node, E.ProductErrorNode):
                raise Mismatch('dataclass:duplicate', f"{path}: expected a product node with duplicate-key children")
            for kk in dups:
                if not isinstance(node.children.get(kk), E.DuplicateKeyError):
                    raise Mismatch('dataclass:duplicate', f"{path}: key {kk!r} repeats a field but has no DuplicateKeyError child")
                ctx.count('duplicate_children')
            # strip the duplicate children and check the rest
            rest = {kk: c for kk, c in node.children.items() if kk not in dups}
            node2 = E.ProductErrorNode(node.expected, rest, node.actual, node.missing, node.extra)
            return _dc_product(ctx, ty, v, node2, path, depth, items, missing, extra, had_dups=True)
        return _dc_product(ctx, ty, v, node, path, depth, items, missing, extra, had_dups=False)
    return leaf_with_value('dataclass:wrong-kind')


def _dc_product(ctx, ty, v, node, path, depth, items, missing, extra, had_dups):
    exp = {}
    for key, cty, cv in items:
        tr = tree_of(cty, cv)
        if tr == 'escape':
            raise Skip()
        if tr is not None:
            exp[key] = (tr, cty, cv)
    if not exp and not missing and not extra and not had_dups:
        if not is_leaf(node) or not same_actual(node.actual, v):
            raise Mismatch('dataclass:container-level', f"{path}: every field is fine on its own: expected a leaf carrying the whole value, got {type(node).__name__}")
        ctx.count('leaf_nodes')
        return
    if not isinstance(node, E.ProductErrorNode):
        raise Mismatch('dataclass-struct', f"{path}: expected a product node, got {type(node).__name__}")
    ctx.count('product_nodes')
    ctx.count('missing_sets_checked')
    ctx.count('extra_sets_checked')
    if set(node.children) != set(exp):
        raise Mismatch('dataclass-struct:child-keys', f"{path}: children keyed {sorted(map(repr, node.children))}, fields rejected on their own: {sorted(map(repr, exp))}")
    if set(node.missing) != set(missing):
        raise Mismatch('dataclass-struct:missing', f"{path}: missing={set(node.missing)!r}, absent required fields: {set(missing)!r}")
    if set(node.extra) != set(extra):
        raise Mismatch('dataclass-struct:extra', f"{path}: extra={set(node.extra)!r}, unknown keys: {set(extra)!r}")
    for key, (tr, cty, cv) in exp.items():
        ok, why = tree_eq(tr, node.children[key], f"{path}.{key}")
        if not ok:
            raise Mismatch('dataclass-struct:child-equals-own-tree', why)
        check(ctx, cty, cv, node.children[key], f"{path}.{key}", depth + 1)


def gen_dc(ctx_, rng):
    """Dataclass with several accepted names per field (aliases), struct input enabled."""
    spec = gentypes.gen_class(rng, 1, naming=True)
    for f in spec.fields:
        if f.name != '_KW_ONLY_' and f.rename is None and f.in_names is None and f.aliases is None and rng.random() < 0.5:
            cand = [a for a in gentypes.ALIAS_NAMES if all(a not in model.in_names(spec, g)[0] and a != g.name for g in spec.fields)]
            if cand:
                f.aliases = tuple(rng.sample(cand, min(2, len(cand))))
    if 'struct' not in spec.opt('in_format'):
        spec.opts['in_format'] = ('struct', 'tuple') if not any(spec.is_kw(f) and not f.has_default() for f in spec.fields) else ('struct',)
    return Ty('dc', spec=spec)


LAST_BAD_KEYS = []     # data keys given a wrong-kind value by the last faulty_dc_value() call


def faulty_dc_value(ty, rng):
    """A struct-layout member with 1-3 directed faults: duplicate keys via aliases, unknown keys, absent fields, bad values."""
    S = ty.x['spec']
    fields = [f for f in S.ordered_fields() if f.init]
    del LAST_BAD_KEYS[:]
    d = genval.dc_member(ty, rng, layout='struct')
    if not isinstance(d, dict):
        return None, ()
    faults = [rng.choice(('dup', 'extra', 'extra', 'missing', 'bad')) for _ in range(rng.choice((1, 2, 3)))]
    for fault in faults:
        if fault == 'dup':
            multi = [f for f in fields if len(model.in_names(S, f)[0]) >= 2]
            if multi:
                f = rng.choice(multi)
                names = sorted(model.in_names(S, f)[0], key=repr)
                for n in rng.sample(names, 2):
                    d.setdefault(n, genval.member(f.ty, rng) if rng.random() < 0.7 else 'bad-value')
        elif fault == 'extra':
            d[rng.choice(('zz_unknown', 'Extra', 7, None, 2.5, ('t', 1)))] = rng.choice((1, 'x', None))
        elif fault == 'missing' and d:
            d.pop(rng.choice(list(d)))
        elif fault == 'bad' and d:
            kk = rng.choice(list(d))
            d[kk] = rng.choice(genval.WRONG_KIND)
            LAST_BAD_KEYS.append(kk)
    return d, tuple(sorted(faults))


def run(ctx):
    def body(i, rng, ty, T):
        for j in range(4):
            v = genval.member(ty, rng)
            v = genval.mutate(v, rng, n=rng.choice((1, 1, 2, 3, 4)))
            if rng.random() < 0.15:
                v = genval.recarrier(v, rng)
            out = observe(env.from_data, v, T)
            if out.kind != 'converr':
                ctx.count('not_rejected')
                continue
            tree = out.exc.tree
            ctx.count('trees_checked')
            if rng.random() < 0.5:
                str(out.exc)          # a user may print the error before inspecting the tree
                ctx.count('rendered_before_check')
            ctx.case((skeleton(ty, 3), genval.skeleton(v, 3), type(tree).__name__),
                     sample={'type': describe(ty)[:200], 'value': short(v, 150), 'tree': short(tree, 200)})
            try:
                check(ctx, ty, v, tree)
            except Skip:
                ctx.count('skipped_unspecified')
            except Mismatch as m:
                ctx.violation('tree-mirrors-type', 'main', i,
                              {'type': describe(ty), 'value': short(v, 400), 'rule': m.rule, 'why': m.why, 'tree': short(tree, 500)},
                              mech=m.rule)

    drive.for_each_case(ctx, 'main', ctx.budget, body)

    # the same union members in two orders inside wrappers that compare equal (PEP 585 generics, type literals), both used in
    # one process: each tree lists ITS members in ITS order
    def body_twins(i, rng, ty_unused, T_unused):
        names = rng.sample(('int', 'str', 'float', 'bool', 'none', 'bytes', 'date', 'fraction'), rng.choice((2, 3)))
        orders = [names, list(reversed(names))]
        rng.shuffle(orders)
        w = rng.choice(('list', 'dict', 'tup', 'struct'))
        for ms in orders:
            u = Ty('union', [Ty(n) for n in ms])
            ty = {'list': Ty('list', [u]), 'dict': Ty('dict', [Ty('str'), u], res='dict'), 'tup': Ty('tup', [u, Ty('int')]),
                  'struct': Ty('struct', [u], keys=('alpha',))}[w]
            T = build(ty, None, uncached=True)
            from ..tyast import conforms
            if not conforms(ty, T):
                ctx.count('type_build_failed')
                continue
            bad = rng.choice(([1, 2], {'k': 1}, 2 + 3j, ('x',)))
            v = {'list': [bad], 'dict': {'k': bad}, 'tup': [bad, 0], 'struct': {'alpha': bad}}[w]
            out = observe(env.from_data, v, T)
            if out.kind != 'converr':
                ctx.count('not_rejected')
                continue
            ctx.count('trees_checked')
            ctx.count('twin_trees_checked')
            try:
                check(ctx, ty, v, out.exc.tree)
            except Skip:
                ctx.count('skipped_unspecified')
            except Mismatch as m:
                ctx.violation('tree-mirrors-type', 'twins', i,
                              {'type': describe(ty), 'both_orders_in_this_process': [list(o) for o in orders], 'value': short(v, 200), 'rule': m.rule, 'why': m.why,
                               'tree': short(out.exc.tree, 500)}, mech='reordered-twin:' + m.rule)
                return

    from ..tyast import build
    drive.for_each_case(ctx, 'twins', max(40, ctx.budget // 5), body_twins, gen=lambda c, r: Ty('int'))

    # documents read with from_yaml_all are a sequence of T: a failing stream reports the tree a List[T] reports for the same documents
    # (a product node keyed by the positions of ALL failing documents, each child the document's own tree)
    def body_yaml_all(i, rng, ty, T):
        import io as _io
        import yaml as _yaml
        from ..entrypoints import jsonable, _only_plain_carriers
        docs = []
        for _ in range(rng.randint(1, 4)):
            v = genval.member(ty, rng)
            if rng.random() < 0.6:
                v = genval.mutate(v, rng, n=rng.choice((1, 2)))
            if _only_plain_carriers(v) and jsonable(v):
                docs.append(v)
        if not docs:
            return
        text = _yaml.safe_dump_all(docs, sort_keys=False, explicit_start=True)
        if list(_yaml.safe_load_all(text)) != docs:
            return
        # (a SequenceConverter built directly: typing would misread a tuple / struct type LITERAL as the argument of List[...])
        ref = observe(lambda: env.m_converters.SequenceConverter(list, T).convert(docs))
        got = observe(env.m_io.from_yaml_all, _io.StringIO(text), T)
        ctx.count('yaml_all_trees')
        if ref.kind != got.kind:
            ctx.violation('tree-mirrors-type', 'yaml_all', i, {'type': describe(ty), 'documents': short(docs, 300), 'from_data(docs, List[T])': ref.brief(),
                                                               'from_yaml_all': got.brief()}, mech='from_yaml_all:verdict-differs-from-List[T]')
            return
        if ref.kind == 'converr':
            ctx.count('trees_checked')
            ok, why = tree_eq(ref.exc.tree, got.exc.tree)
            if not ok:
                ctx.violation('tree-mirrors-type', 'yaml_all', i, {'type': describe(ty), 'documents': short(docs, 300), 'why': why,
                                                                   'tree_of_List[T]': short(ref.exc.tree, 300), 'tree_of_from_yaml_all': short(got.exc.tree, 300)},
                              mech='from_yaml_all:tree-differs-from-List[T]')

    import typing as t
    drive.for_each_case(ctx, 'yaml_all', max(40, ctx.budget // 5), body_yaml_all)


    def body_dc(i, rng, ty, T):
        for j in range(4):
            d, faults = faulty_dc_value(ty, rng)
            if d is None:
                continue
            out = observe(env.from_data, d, T)
            if out.kind != 'converr':
                ctx.count('not_rejected')
                continue
            tree = out.exc.tree
            ctx.count('trees_checked')
            ctx.case((skeleton(ty, 3), genval.skeleton(d, 3), type(tree).__name__, faults))
            try:
                check(ctx, ty, d, tree)
            except Skip:
                ctx.count('skipped_unspecified')
            except Mismatch as m:
                ctx.violation('tree-mirrors-type', 'dcfaults', i,
                              {'type': describe(ty), 'value': short(d, 400), 'rule': m.rule, 'why': m.why, 'tree': short(tree, 500)},
                              mech=m.rule)

    drive.for_each_case(ctx, 'dcfaults', ctx.budget // 2, body_dc, gen=gen_dc)
