"""C05 — serialise / parse round trip."""
import collections
import enum
import collections.abc
import typing as t

from .. import entrypoints, env, genval, gentypes, drive, deepeq, model
from ..common import observe, build_type, plain_data
from ..ctx import short
from ..deepeq import deep_typed_eq
from ..locate import locate, contains
from ..tyast import Ty, FieldM, ClassM, describe, skeleton, build, py_class, _serial

PLAN = {
    'quick': {'shards': 16, 'budget': 1800},
    'thorough': {'shards': 64, 'budget': 25000, 'timeout': 7200},
}
LEVEL = 'exploration'
TECHNIQUE = "runtime monitoring: metamorphic round-trip oracle (into_data -> interchange-only -> from_data == x -> into_data == data) on every typed value the workload produces, with located witnesses"
RULE = ("x = from_data(v, T) for generated T and member values; d1 = into_data(x, T) must be pure interchange data, "
        "from_data(d1, T) must deep-typed-equal x (modulo excluded fields), into_data again must equal d1 up to set order; "
        "dataclass configuration cube (in/out format x rename styles x per-field aliases/in_names/rename/out_name/kw_only/"
        "exclude x defaults) sampled, plus x.into_data(); only configurations whose out_format is enabled on input are "
        "round-trip cases. distinct = (type skeleton, value skeleton)")
ASSUMPTIONS = ["dataclass fields with init=False are generated only together with exclude=True (the statement's configuration space is layouts/renaming/aliases)",
               "failing witnesses are minimised by descending the type AST with the typed value (pv/locate.py) before the mechanism classifier runs"]
ANCHORS = ['convert:into_data', 'converters:ScalarConverter.into_data', 'converters:UnionConverter.into_data',
           'converters:TaggedUnionConverter.into_data', 'converters:StructConverter.into_data',
           'converters:TupleConverter.into_data', 'converters:DictConverter.into_data', 'converters:SequenceConverter.into_data',
           'converters:NestedSequenceConverter.into_data', 'converters:EnumConverter.into_data',
           'converters:DelegateConverter.into_data', 'converters:PatternConverter.into_data',
           'converters:DatetimeConverter.into_data', 'classes:PaneConverter.into_data', 'field:FieldSpec.make_field']
MIN_COUNTERS = {'quick': {'roundtrips': 25000, 'dataclass_roundtrips': 6000, 'tuple_out_roundtrips': 300, 'renamed_roundtrips': 1000}}

_SCALARS = (str, bytes, bytearray, bool, int, float, complex, type(None))


def interchange_problem(d, allow_array, depth=0):
    """None if d is pure interchange data, else a description of the offending part."""
    if depth > 30:
        return 'too deep'
    if isinstance(d, enum.Enum):
        return f"enum member {d!r} (an instance of {type(d).__mro__[1].__name__} through its mix-in, but not an interchange scalar)"
    if isinstance(d, _SCALARS):
        if type(d) not in _SCALARS:
            return f"{type(d).__name__} instance {d!r}: a subclass of an interchange scalar, not the scalar itself (yaml.safe_dump refuses it)"
        return None
    if isinstance(d, collections.abc.Mapping):
        for k, x in d.items():
            p = interchange_problem(k, allow_array, depth + 1) or interchange_problem(x, allow_array, depth + 1)
            if p:
                return p
        return None
    if isinstance(d, collections.abc.Sequence):
        for x in d:
            p = interchange_problem(x, allow_array, depth + 1)
            if p:
                return p
        return None
    if allow_array and type(d).__module__ == 'numpy':
        return None
    return f"{type(d).__name__} object {short(d, 80)}"


def multiset_eq(a, b, depth=0):
    """Data equality ignoring the order inside sequences (used only where set-typed positions exist)."""
    if depth > 30:
        return True
    if isinstance(a, collections.abc.Mapping) and isinstance(b, collections.abc.Mapping):
        if len(a) != len(b):
            return False
        rest = list(b.items())
        for k, x in a.items():
            for i, (k2, x2) in enumerate(rest):
                if multiset_eq(k, k2, depth + 1) and multiset_eq(x, x2, depth + 1):
                    del rest[i]
                    break
            else:
                return False
        return True
    if isinstance(a, (list, tuple)) and isinstance(b, (list, tuple)):
        if len(a) != len(b) or type(a) is not type(b):
            return False
        rest = list(b)
        for x in a:
            for i, y in enumerate(rest):
                if multiset_eq(x, y, depth + 1):
                    del rest[i]
                    break
            else:
                return False
        return True
    return deep_typed_eq(a, b)[0]


def in_scope(ty):
    """Every dataclass in the type has its output form enabled on input: the output layout is an input
    layout and (struct output) every emitted field name is one of that field's input names."""
    from ..model import in_names, out_name

    def bad(n):
        if n.k != 'dc':
            return False
        S = n.x['spec']
        if S.opt('out_format') not in S.opt('in_format'):
            return True
        if isinstance(S.post_init, tuple) and S.post_init[0] == 'raise_if_set':
            # a hook that refuses an explicitly given field refuses the written form (which gives every field) by its own choice
            return True
        if S.opt('out_format') == 'struct':
            for f in S.fields:
                if f.name == '_KW_ONLY_' or f.exclude or not f.init:
                    continue
                acc, _ = in_names(S, f)
                if out_name(S, f) not in acc and out_name(S, f) != f.name:
                    return True
        return False
    def hashed_with_excluded(n):
        # 'equal modulo excluded fields' is ill-defined inside a set / as a mapping key (elements may collapse)
        kids = []
        if n.k == 'set': kids = [n.a[0]]
        elif n.k in ('dict', 'counter'): kids = [n.a[0]]
        return any(contains(c, lambda m: m.k == 'dc' and any(f.exclude for f in m.x['spec'].fields)) for c in kids)
    return not contains(ty, bad) and not contains(ty, hashed_with_excluded)


def roundtrip(T, x, ty=None):
    """Returns None when the round trip holds, else (stage, detail)."""
    d1 = observe(env.into_data, x, T)
    if d1.kind != 'value':
        return 'into_data-raised', d1.brief()
    p = interchange_problem(d1.val, allow_array=ty is None or contains(ty, lambda n: n.k in ('ndarray', 'any')))
    if p:
        return 'not-interchange', p
    x2 = observe(env.from_data, d1.val, T)
    if x2.kind != 'value':
        return 'reparse-rejected', f"data={short(d1.val, 200)} -> {x2.brief()}"
    ok, why = deep_typed_eq(x, x2.val)
    if not ok:
        return 'reparse-differs', f"data={short(d1.val, 200)} -> {short(x2.val, 200)}: {why}"
    d2 = observe(env.into_data, x2.val, T)
    if d2.kind != 'value':
        return 'second-into_data-raised', d2.brief()
    if not deep_typed_eq(d1.val, d2.val)[0] and not multiset_eq(d1.val, d2.val):
        return 'second-serialisation-differs', f"{short(d1.val, 200)} vs {short(d2.val, 200)}"
    return None


def _nodes(ty, depth=0):
    yield ty
    if depth < 10:
        kids = list(ty.a) + ([f.ty for f in ty.x['spec'].fields if f.name != '_KW_ONLY_'] if ty.k == 'dc' else [])
        for c in kids:
            yield from _nodes(c, depth + 1)


def _holds_instance(x, cls, depth=0):
    if type(x) is cls:
        return True
    if depth > 8:
        return False
    if isinstance(x, collections.abc.Mapping):
        return any(_holds_instance(k, cls, depth + 1) or _holds_instance(v, cls, depth + 1) for k, v in x.items())
    if isinstance(x, (list, tuple, set, frozenset, collections.deque)):
        return any(_holds_instance(e, cls, depth + 1) for e in x)
    if hasattr(type(x), '__pane_info__'):
        return any(_holds_instance(getattr(x, f.name, None), cls, depth + 1) for f in type(x).__pane_info__.fields)
    if type(x).__name__ == 'ValueOrList':
        return _holds_instance(x._inner, cls, depth + 1)
    return False


def _keyify(k):
    """A key modulo the list/tuple carrier, still hashable (nested sequences become nested tuples)."""
    return tuple(_keyify(e) for e in k) if isinstance(k, (tuple, list)) else k


def _listify(d):
    """Data modulo the list/tuple carrier (a union may serialise through a member that writes lists where another writes tuples)."""
    if isinstance(d, collections.abc.Mapping):
        return {_keyify(k): _listify(v) for k, v in d.items()}
    if isinstance(d, (list, tuple)):
        return [_listify(v) for v in d]
    return d


def _has_nan(obj, depth=0):
    """obj is, or holds (tuple / frozenset / dataclass fields), a value that is not equal to itself."""
    try:
        if isinstance(obj, (float, complex)) or type(obj).__name__ in ('Decimal',):
            return bool(obj != obj)
    except Exception:
        return False
    if depth > 6:
        return False
    if isinstance(obj, (tuple, frozenset, list)):
        return any(_has_nan(o, depth + 1) for o in obj)
    if hasattr(obj, '__pane_info__'):
        return any(_has_nan(getattr(obj, f.name, None), depth + 1) for f in obj.__pane_info__.fields)
    return False


def _holds_any_dataclass(x, depth=0):
    if hasattr(type(x), '__pane_info__'):
        return True
    if depth > 8:
        return False
    if isinstance(x, collections.abc.Mapping):
        return any(_holds_any_dataclass(k, depth + 1) or _holds_any_dataclass(v, depth + 1) for k, v in x.items())
    if isinstance(x, (list, tuple, set, frozenset, collections.deque)):
        return any(_holds_any_dataclass(e, depth + 1) for e in x)
    if type(x).__name__ == 'ValueOrList':
        return _holds_any_dataclass(x._inner, depth + 1)
    return False


def classify(ty, x):
    """Mechanism of a located failing witness (ty, x), or None."""
    if ty.k == 'union':
        U = build(ty)
        members = t.get_args(U)
        d = observe(env.into_data, x, U)
        if d.kind == 'value':
            j_true = None
            for j, A in enumerate(members):
                c = observe(env.convert, x, A)
                if c.kind == 'value' and deep_typed_eq(x, c.val)[0]:
                    j_true = j
                    break
            j_parse = None
            for j, A in enumerate(members):
                if observe(env.from_data, d.val, A).kind == 'value':
                    j_parse = j
                    break
            if j_parse is not None and j_true is not None and j_parse < j_true and len(members) == len(ty.a):
                # ... and only when the earlier member is RIGHT to read that data: if the reference model says it must refuse it,
                # this is not the inherent ambiguity but a member accepting too much
                try:
                    if model.spec(ty.a[j_parse], plain_data(d.val)).v == model.REJ:
                        return None
                except Exception:
                    pass
            if j_parse is not None and j_true is not None and j_parse < j_true:
                # only when the union wrote exactly what x's own member writes: the ambiguity is then inherent in the data
                own = observe(env.into_data, x, members[j_true])
                if own.kind == 'value' and deep_typed_eq(_listify(own.val), _listify(d.val))[0]:
                    return 'untagged-union-reparse-ambiguity'
            # the other face of the same limitation: on the way OUT the union asks each member's fast pass about the TYPED value, and an
            # earlier member that would read it as data (a datetime as a date, a bool as a count) serialises it ITS way - or a later one
            # does, because x's own member's fast pass refuses the typed value (a ValueOrList instance is not data its converter
            # reads): what was written is then not what x's own member writes, and nobody reads it back as x
            if j_true is not None and not _holds_any_dataclass(x):
                # (not when the value holds dataclass instances: a dataclass's fast pass does not take instances, so an instance being
                #  claimed by another member - a base class's variant, say - is never this inherent limitation; seeded change C05-r2-2)
                j_ser = None
                for j, A in enumerate(members):
                    if observe(lambda: env.make_converter(A).try_convert(x)).kind == 'value':
                        j_ser = j
                        break
                if j_ser is not None and j_ser != j_true:
                    theirs = observe(env.into_data, x, members[j_ser])
                    if theirs.kind == 'value' and deep_typed_eq(_listify(theirs.val), _listify(d.val))[0]:
                        return 'untagged-union-other-member-serialises-the-typed-value'
    if ty.k == 'union':
        for m in ty.a:
            wrapped = [n for n in _nodes(m) if n.k == 'tagged' and n.x['external'] is not False]
            if any(_holds_instance(x, py_class(v)) for n in wrapped for v in n.a):
                return 'wrapped-tagged-union-inside-untagged-union'
            # an INTERNALLY tagged member whose variant renames its tag field is in the same position: the untagged union writes the
            # instance by its own class (no member's fast pass takes a typed instance), so the tag lands under the renamed key only
            for n in (n_ for n_ in _nodes(m) if n_.k == 'tagged' and n_.x['external'] is False):
                for v in n.a:
                    S = v.x['spec']
                    tagf = next((f for f in S.fields if f.name == n.x['tag']), None)
                    if tagf is not None and model.out_name(S, tagf) != n.x['tag'] and _holds_instance(x, py_class(v)):
                        return 'wrapped-tagged-union-inside-untagged-union'
    if ty.k in ('dict', 'counter') and contains(ty.a[0], lambda n: n.k in ('dc', 'struct', 'dict', 'counter', 'tagged')):
        d = observe(env.into_data, x, build(ty))
        if d.kind == 'escape' and isinstance(d.exc, TypeError) and "unhashable type: 'dict'" in str(d.exc):
            return 'mapping-key-serialises-to-a-mapping'
    if ty.k == 'dc':
        S = ty.x['spec']
        if S.opt('out_format') == 'tuple':
            fields = S.ordered_fields()
            if any(S.is_kw(f) and f.init and not f.exclude for f in fields):
                return 'tuple-out-emits-keyword-only-fields'
            seen_excluded = False
            for f in fields:
                if f.exclude:
                    seen_excluded = True
                elif seen_excluded:
                    return 'tuple-out-excluded-field-shifts-positions'
    return None


def run(ctx):
    deepeq.SKIP_EXCLUDED = True

    def check(i, rng, ty, T, v, sub):
        out = observe(env.from_data, v, T)
        if out.kind != 'value':
            ctx.count('not_a_member')
            return
        x = out.val
        ctx.count('roundtrips')
        has_dc = contains(ty, lambda n: n.k == 'dc')
        if has_dc:
            ctx.count('dataclass_roundtrips')
            if contains(ty, lambda n: n.k == 'dc' and n.x['spec'].opt('out_format') == 'tuple'):
                ctx.count('tuple_out_roundtrips')
            if contains(ty, lambda n: n.k == 'dc' and (n.x['spec'].opt('out_rename') or n.x['spec'].opt('in_rename'))):
                ctx.count('renamed_roundtrips')
        ctx.case((skeleton(ty, 4), genval.skeleton(v, 3)),
                 sample={'type': describe(ty)[:250], 'value': short(v, 150), 'typed': short(x, 150)})
        bad = roundtrip(T, x, ty)
        if bad is None and ty.k == 'dc':
            d1 = observe(x.into_data)
            d0 = observe(env.into_data, x, T)
            if d1.kind != 'value' or not deep_typed_eq(d0.val, d1.val)[0]:
                bad = ('method-into_data-differs', f"{d1.brief()} vs {d0.brief()}")
        if bad is None:
            if rng.random() < 0.2:
                # the other ways out write the same data, and the data read back as TEXT (a JSON / YAML document, top-level null, 0,
                # false, '' and [] included) is the same value again
                d = env.into_data(x, T)
                if not entrypoints.check_output_agreement(ctx, 'round-trip', sub, i, T, x, d, describe(ty), is_dc=ty.k == 'dc', inferable=ty.k == 'dc'):
                    return
                dp = plain_data(d)
                if entrypoints._only_plain_carriers(dp) and entrypoints.jsonable(dp):
                    import io as _io, json as _json, yaml as _yaml
                    for fmt, text in (('json', _json.dumps(dp)), ('yaml', _yaml.safe_dump(dp, sort_keys=False))):
                        back = observe(getattr(env.m_io, 'from_' + fmt), _io.StringIO(text), T)
                        ctx.count('text_roundtrips')
                        if back.kind != 'value' or not deep_typed_eq(x, back.val)[0]:
                            ctx.violation('round-trip', sub, i, {'type': describe(ty), 'typed': short(x, 300), 'document': short(text, 200), 'format': fmt,
                                                                 'read_back': back.brief()}, mech=f"document-roundtrip:{fmt}")
                            return
            return
        stage, detail = bad

        def fails(cty, cx):
            Tc, err = build_type(cty)
            return err is None and roundtrip(Tc, cx, cty) is not None

        lty, lx, path = locate(ty, x, fails)
        if lty.k in ('dict', 'counter', 'set') and sum(1 for k_ in lx if _has_nan(k_)) >= 2:
            # two typed keys / elements that differ only because NaN != NaN have ONE data image: such a mapping or set has no
            # interchange form that keeps both (false alarm of sweep #7, seed 6: keys (Decimal('NaN'), PurePosixPath('.')) twice)
            ctx.count('out_of_scope_nan_keys')
            return
        mech = classify(lty, lx)
        lstage = stage
        if lty is not ty:
            lb = roundtrip(build(lty), lx, lty)
            if lb:
                lstage, detail = lb
        ctx.violation('round-trip', sub, i,
                      {'type': describe(ty), 'value': short(v, 300), 'typed': short(x, 300), 'stage': stage,
                       'located_at': path, 'located_type': describe(lty), 'located_value': short(lx, 300),
                       'located_stage': lstage, 'detail': detail},
                      mech=mech or f"{lstage}:{lty.k}")

    def body(i, rng, ty, T):
        if not in_scope(ty):
            ctx.count('out_of_scope_types')
            return
        for j in range(4):
            v = genval.member(ty, rng)
            if rng.random() < 0.2 and not contains(ty, lambda n: n.k == 'any' or (n.k == 'ndarray' and not n.x.get('dtype'))):
                v = genval.recarrier(v, rng)   # (under Any the carrier itself is the typed value)
            check(i, rng, ty, T, v, 'main')

    gentypes.INIT_FALSE_IMPLIES_EXCLUDE = True
    gentypes.NDARRAY_ANY_LEAVES = False
    genval.SMALL_INTS_ONLY = True
    drive.for_each_case(ctx, 'main', ctx.budget, body)

    # dataclass configuration cube, sampled: layouts x renaming x per-field naming x defaults
    def gen_cube(ctx_, rng):
        spec = gentypes.gen_class(rng, 1, naming=True, allow=('int', 'str', 'bool', 'float', 'list', 'none', 'union', 'lit', 'enum', 'fraction', 'date'))
        if rng.random() < 0.6 and 'out_format' not in spec.opts:
            spec.opts['out_format'] = rng.choice(('struct', 'tuple'))
        if spec.opt('out_format') not in spec.opt('in_format'):
            if spec.opt('out_format') == 'struct' or not any((spec.is_kw(f) and not f.has_default()) for f in spec.fields):
                spec.opts['in_format'] = tuple(dict.fromkeys((*spec.opt('in_format'), spec.opt('out_format'))))
        return Ty('dc', spec=spec)

    drive.for_each_case(ctx, 'cube', ctx.budget, body, gen=gen_cube)

    # unions of a dataclass and its subclass (either order), alone and nested: the subclass instance must survive
    def gen_inherit(ctx_, rng):
        opts = rng.choice(({}, {'allow_extra': True}, {'in_format': ('struct', 'tuple')}, {'rename': 'camel'}))
        base_fields = [FieldM('alpha', Ty('int')), FieldM('count', Ty('int'), 'val', 0)]
        bspec = ClassM(f"KB{next(_serial)}", base_fields, dict(opts))
        bty = Ty('dc', spec=bspec)
        Bcls = py_class(bty)
        extra = FieldM('extra_f', Ty(rng.choice(('str', 'float'))), 'val', 'x')
        if extra.ty.k == 'float':
            extra.dval = 1.5
        if rng.random() < 0.5:
            extra.dflt, extra.dval, extra.kw_only = 'req', None, True     # (a required field after a defaulted one must be keyword-only)
            if 'tuple' in opts.get('in_format', ()):
                extra.dflt, extra.dval, extra.kw_only = 'val', ('x' if extra.ty.k == 'str' else 1.5), False
        dspec = ClassM(f"KD{next(_serial)}", [FieldM('alpha', Ty('int')), FieldM('count', Ty('int'), 'val', 0), extra], dict(opts))
        dty = Ty('dc', spec=dspec)
        from ..tyast import build_class
        dty._obj = build_class(dspec, base=Bcls)
        members = [bty, dty] if rng.random() < 0.5 else [dty, bty]
        u = Ty('union', members)
        wrap = rng.choice(('top', 'list', 'optional', 'field', 'dictval'))
        if wrap == 'list': return Ty('list', [u])
        if wrap == 'dictval': return Ty('dict', [Ty('str'), u])
        if wrap == 'optional': return Ty('union', members + [Ty('none')])
        if wrap == 'field': return Ty('dc', spec=ClassM(f"KO{next(_serial)}", [FieldM('inner_val', u), FieldM('zz', Ty('int'), 'val', 0)], {}))
        return u

    def body_inherit(i, rng, ty, T):
        ctx.count('inheritance_union_cases')
        for j in range(6):
            v = genval.member(ty, rng)
            check(i, rng, ty, T, v, 'inherit')

    drive.for_each_case(ctx, 'inherit', max(30, ctx.budget // 6), body_inherit, gen=gen_inherit)

    # scalar fields with an interchange form of their own: a field converter, a class-level handler, a handler passed to the call
    # (an int kept as a hex string). The serialised form must be THAT form, in every layout, and must read back.
    class HexConv(env.Converter):
        def expected(self, plural=False): return 'hex string'
        def try_convert(self, val):
            if isinstance(val, str) and val.startswith('0x'):
                try:
                    return int(val, 16)
                except ValueError:
                    pass
            raise env.m_errors.ParseInterrupt()
        def collect_errors(self, val):
            try:
                self.try_convert(val)
                return None
            except env.m_errors.ParseInterrupt:
                return env.m_errors.WrongTypeError(self.expected(), val)
        def into_data(self, val): return hex(val)

    def body_fieldconv(i, rng, ty_unused, T_unused):
        how = rng.choice(('field', 'class', 'call'))
        out_format = rng.choice(('struct', 'tuple'))
        ns = {'__annotations__': {'name': str, 'port': int, 'ratio': float, 'extra': t.List[int]}, 'ratio': 1.5, '__module__': __name__,
              'extra': env.pfield(default_factory=list)}
        if how == 'field':
            ns['port'] = env.pfield(converter=HexConv())
        opts = {'in_format': ('struct', 'tuple'), 'out_format': out_format}
        if how == 'class':
            opts['custom'] = {int: HexConv()}
        cls = type(f"KH{next(_serial)}", (env.PaneBase,), ns, **opts)
        custom = {int: HexConv()} if how == 'call' else None
        elems = ['0x1', '0x2'] if how != 'field' else [1, 2]
        data = {'name': 'n', 'port': '0x20', 'ratio': 2.5, 'extra': elems}
        o = observe(env.from_data, data, cls, custom=custom)
        ctx.count('custom_form_roundtrips')
        ctx.case(('fieldconv', how, out_format, o.kind), nontrivial=True)
        wit = {'how': how, 'out_format': out_format, 'data': short(data), 'from_data': o.brief()}
        if o.kind != 'value' or o.val.port != 32 or type(o.val.port) is not int:
            ctx.violation('round-trip', 'fieldconv', i, wit, mech='custom-form:not-read')
            return
        d = observe(env.into_data, o.val, cls, custom=custom)
        want = {'name': 'n', 'port': '0x20', 'ratio': 2.5, 'extra': elems}
        want = want if out_format == 'struct' else tuple(want.values())
        if d.kind != 'value' or not deep_typed_eq(_listify(want), _listify(d.val))[0]:
            ctx.violation('round-trip', 'fieldconv', i, {**wit, 'into_data': d.brief(), 'expected_data': short(want)}, mech='custom-form:not-written')
            return
        back = observe(env.from_data, d.val, cls, custom=custom)
        if back.kind != 'value' or not (back.val == o.val):
            ctx.violation('round-trip', 'fieldconv', i, {**wit, 'into_data': d.brief(), 'reparsed': back.brief()}, mech='custom-form:reparse-differs')
            return
        # the writer methods with the same handlers: the string form, the stream form and into_data all write the custom form
        import io as _io, json as _json
        sio = _io.StringIO()
        w1, w2 = observe(o.val.write_json, custom=custom), observe(o.val.write_json, sio, custom=custom)
        for label, got in (('x.write_json(custom=)', w1.val if w1.kind == 'value' else None), ('x.write_json(stream, custom=)', sio.getvalue() if w2.kind == 'value' else None)):
            ctx.count('custom_form_writer_checks')
            if got is None or not deep_typed_eq(_listify(want), _listify(_json.loads(got)))[0]:
                ctx.violation('round-trip', 'fieldconv', i, {**wit, 'writer': label, 'text': short(got, 200), 'expected_data': short(want)}, mech='custom-form:writer-differs')
                return
        if how != 'call':
            m = observe(o.val.into_data)
            if m.kind != 'value' or not deep_typed_eq(_listify(want), _listify(m.val))[0]:
                ctx.violation('round-trip', 'fieldconv', i, {**wit, 'x.into_data()': m.brief(), 'expected_data': short(want)}, mech='custom-form:method-differs')

    drive.for_each_case(ctx, 'fieldconv', max(20, ctx.budget // 20), body_fieldconv, gen=lambda c, r: Ty('int'))
