"""C04 — only ConvertError escapes a conversion of interchange data; unsupported types fail up front."""
import collections
import collections.abc
import dataclasses
import enum
import io
import json
import re
import typing as t

import yaml

from .. import env, genval, gentypes, drive, monitors
from ..common import observe, escape_site
from ..ctx import short
from ..tyast import Ty, describe, skeleton, py_class

PLAN = {
    'quick': {'shards': 16, 'budget': 1800},
    'thorough': {'shards': 64, 'budget': 25000, 'timeout': 7200},
}
LEVEL = 'exploration'
TECHNIQUE = "runtime monitoring: exception class escaping each API boundary call is observed under adversarial generated inputs; read-trap mapping for the 'before any data is looked at' clause"
RULE = ("boundary calls make_converter / from_data / convert / Cls.from_data / from_jsons / from_yamls / from_json(StringIO) / "
        "from_yaml(StringIO) on generated (type, value) pairs with adversarial leaves (odd tags and keys, strings that make "
        "stdlib constructors raise, raising predicates and __post_init__ hooks incl. ParseInterrupt/ConvertError/KeyError); "
        "plus an unsupported-type grammar that must raise TypeError/UnsupportedAnnotation with zero reads of a trap mapping. "
        "distinct = (boundary, type skeleton, value skeleton, outcome class)")
ASSUMPTIONS = ["values outside the interchange domain (sets, arbitrary objects) are not generated: from_data documents TypeError for them",
               "JSON/YAML text is produced by the standard dumpers, so parser-level errors are out of scope",
               "a tagged union whose member lacks the tag attribute (AttributeError today) is treated as unspecified, not generated"]
ANCHORS = ['convert:make_converter', 'convert:from_data', 'convert:convert', 'convert:_annotated_converter',
           'converters:Converter.convert', 'classes:PaneBase.from_data', 'io:from_json', 'io:from_yaml',
           'converters:TaggedUnionConverter.collect_errors', 'converters:PatternConverter.collect_errors',
           'converters:DictConverter.collect_errors', 'converters:SequenceConverter.collect_errors',
           'converters:ConditionalConverter.collect_errors', 'classes:PaneConverter.collect_errors_struct',
           'classes:PaneConverter.collect_errors_tuple', 'converters:EnumConverter.__init__']
MIN_COUNTERS = {'quick': {'boundary_calls': 20000, 'unsupported_checked': 100, 'outcome_converr': 5000, 'unprintable_value_cases': 60, 'edge_form_calls': 80}}


class TrapMapping(collections.abc.Mapping):
    """A mapping that records every read access."""

    def __init__(self, d):
        self._d = d
        self.reads = []

    def __getitem__(self, k):
        self.reads.append(('getitem', k))
        return self._d[k]

    def __iter__(self):
        self.reads.append(('iter',))
        return iter(self._d)

    def __len__(self):
        self.reads.append(('len',))
        return len(self._d)

    def __contains__(self, k):
        self.reads.append(('contains', k))
        return k in self._d


class _Flag(enum.Flag):
    A = 1
    B = 2


class _Plain:
    pass


_NewInt = t.NewType('_NewInt', int)


@dataclasses.dataclass
class _StdDC:
    a: int = 0


def unsupported_types(rng):
    """(description, python type) pairs from the unsupported grammar."""
    from pane.annotations import Tagged
    base = [
        ('object', object), ('Callable', t.Callable[[int], int]), ('Flag enum', _Flag), ('plain class', _Plain),
        ('Iterable[int]', t.Iterable[int]), ('Collection[int]', collections.abc.Collection[int]),
        ('forward ref str', 'Foo'), ('ForwardRef', t.ForwardRef('Foo')),
        ('Annotated[int, "doc"]', t.Annotated[int, "doc"]), ('Annotated[int, 5]', t.Annotated[int, 5]),
        ('Pattern[int]', re.Pattern[int]), ('Tagged non-union', t.Annotated[int, Tagged('x')]),
        ('type[int]', t.Type[int]), ('ClassVar', t.ClassVar[int]), ('Final', t.Final[int]),
        # forms the documentation does not list and the pinned tree refuses up front
        ('NewType', _NewInt), ('PEP604 int|str', int | str), ('PEP604 list[int]|None', list[int] | None), ('stdlib dataclass', _StdDC),
        ('type', type), ('NoReturn', t.NoReturn), ('Never', t.Never), ('Self', t.Self), ('LiteralString', t.LiteralString),
        ('bare Optional', t.Optional), ('Ellipsis', ...), ('slice', slice), ('abc.Sized', collections.abc.Sized),
        ('Protocol', t.Protocol), ('Generic', t.Generic), ('Required', t.Required[int]),
    ]
    d, ty = rng.choice(base)
    wrap = rng.choice(('bare', 'list', 'dict', 'optional', 'tuple', 'struct', 'field'))
    if wrap == 'optional' and d.startswith('PEP604'):
        wrap = 'list'       # typing.Optional[int | str] is normalised by typing itself into typing.Union[int, str, None], which is supported
    try:
        if wrap == 'list':
            return f"List[{d}]", t.List[ty]
        if wrap == 'dict':
            return f"Dict[str, {d}]", t.Dict[str, ty]
        if wrap == 'optional':
            return f"Optional[{d}]", t.Optional[ty]
        if wrap == 'tuple':
            return f"({d}, int)", (ty, int)
        if wrap == 'struct':
            return f"{{'k': {d}}}", {'k': ty}
        if wrap == 'field':
            cls = type(f"U{rng.randrange(10**6)}", (env.PaneBase,), {'__annotations__': {'f': ty}, '__module__': __name__})
            return f"class with field {d}", cls
    except Exception:
        pass
    return d, ty


def dup_tag_type(rng):
    from pane.annotations import Tagged
    A = type('DupA', (env.PaneBase,), {'__annotations__': {'tag': t.Literal['same']}, 'tag': 'same', '__module__': __name__})
    B = type('DupB', (env.PaneBase,), {'__annotations__': {'tag': t.Literal['same']}, 'tag': 'same', '__module__': __name__})
    return "duplicate tag values", t.Annotated[t.Union[A, B], Tagged('tag', rng.choice((False, True, ('t', 'c'))))]


def jsonable(v, depth=0):
    if depth > 8:
        return False
    if v is None or isinstance(v, (bool, int, float, str)):
        return True
    if isinstance(v, (bytes, bytearray, complex)):
        return False
    if isinstance(v, collections.abc.Mapping):
        return all(isinstance(k, (str, int, float, bool, type(None))) and jsonable(x, depth + 1) for k, x in v.items())
    if genval.model.is_seq(v):
        return all(jsonable(x, depth + 1) for x in v)
    return False


def plain(v):
    """Plain dict/list copy for the dumpers."""
    if isinstance(v, collections.abc.Mapping):
        return {k: plain(x) for k, x in v.items()}
    if genval.model.is_seq(v):
        return [plain(x) for x in v]
    return v


class _NeverUsed:
    pass


def _never(ty, args, *, handlers):
    return NotImplemented


UNRELATED_HANDLERS = [_never]


def run(ctx):
    def judge(boundary, i, ty, T, v, out, sub='main'):
        ctx.count('boundary_calls')
        ctx.count(f"outcome_{out.kind}")
        ctx.case((boundary, skeleton(ty, 3), genval.skeleton(v, 3), out.kind if out.kind != 'escape' else type(out.exc).__name__),
                 sample={'boundary': boundary, 'type': describe(ty)[:200], 'value': short(v, 150), 'outcome': out.brief()[:150]})
        if out.kind == 'converr' and ctx.rng('render', boundary, i, ctx.counters.get('boundary_calls', 0)).random() < 0.3:
            # what the caller does with a ConvertError is look at it: str(), repr() and the tree are part of the error, and may not raise
            for how, f in (('str', str), ('repr', repr), ('str(tree)', lambda e: str(e.tree))):
                r = observe(f, out.exc)
                ctx.count('errors_rendered')
                if r.kind != 'value':
                    ctx.violation('only-ConvertError-escapes', sub, i,
                                  {'boundary': boundary, 'type': describe(ty), 'value': short(v, 300), 'looking_at_the_error': how, 'raised': r.brief()},
                                  mech=f"error-text-raises:{type(r.exc).__name__}@{escape_site(r.exc)}")
                    break
        if out.kind == 'escape':
            site = escape_site(out.exc)
            ctx.violation('only-ConvertError-escapes', sub, i,
                          {'boundary': boundary, 'type': describe(ty), 'py_type': short(T, 300), 'value': short(v, 500),
                           'escaped': f"{type(out.exc).__name__}: {short(str(out.exc), 200)}", 'site': site},
                          mech=f"{type(out.exc).__name__}@{site}")

    def body(i, rng, ty, T):
        out = observe(env.make_converter, T)
        ctx.count('make_converter_calls')
        if out.kind != 'value':
            ctx.violation('documented-type-builds', 'main', i, {'type': describe(ty), 'py_type': short(T, 300), 'raised': out.brief()},
                          mech=f"make_converter:{type(out.exc).__name__}")
            return
        for j in range(4):
            cls_, v = genval.case_values(ty, rng)
            if cls_ == 'member' and rng.random() < 0.5:
                v = genval.recarrier(genval.mutate(v, rng, n=rng.choice((1, 2, 4))), rng)
            which = rng.random()
            if which < 0.45:
                judge('from_data', i, ty, T, v, observe(env.from_data, v, T))
            elif which < 0.58:
                judge('convert', i, ty, T, v, observe(env.convert, v, T))
            elif which < 0.65:
                # the same boundaries with custom handlers in force (handlers for a type that does not occur: they change nothing,
                # but every converter is then looked up through the handler-aware paths)
                if rng.random() < 0.5:
                    judge('convert(custom=)', i, ty, T, v, observe(env.convert, v, T, custom=UNRELATED_HANDLERS))
                else:
                    judge('from_data(custom=)', i, ty, T, v, observe(env.from_data, v, T, custom=UNRELATED_HANDLERS))
            elif which < 0.8 and ty.k == 'dc':
                judge('Cls.from_data', i, ty, T, v, observe(T.from_data, v))
            else:
                pv_ = plain(v)
                if jsonable(pv_):
                    try:
                        text = json.dumps(pv_)
                        ytext = yaml.safe_dump(pv_, allow_unicode=rng.random() < 0.5)
                    except Exception:
                        continue
                    if ty.k == 'dc' and rng.random() < 0.5:
                        judge('Cls.from_jsons', i, ty, T, v, observe(T.from_jsons, text))
                        judge('Cls.from_yamls', i, ty, T, v, observe(T.from_yamls, ytext))
                    else:
                        judge('from_json', i, ty, T, v, observe(env.m_io.from_json, io.StringIO(text), T))
                        judge('from_yaml', i, ty, T, v, observe(env.m_io.from_yaml, io.StringIO(ytext), T))
                else:
                    judge('from_data', i, ty, T, v, observe(env.from_data, v, T))

    drive.for_each_case(ctx, 'main', ctx.budget, body)

    # hand-written targets the grammar does not produce: container subclasses whose constructor validates, and dataclasses that
    # merely INHERIT a validating hook (plain subclass, subclass with more fields, subclass of a bound generic)
    from .. import special
    for idx, (desc, ST, vals) in enumerate(special.container_subclass_cases() + special.inherited_hook_cases() + special.protocol_cases() + special.attribute_tagged_cases() + special.tuple_layout_cases() + special.unhashable_key_cases()):
        if idx % ctx.nshards != ctx.shard or not ctx.want('special', idx):
            continue
        for v in vals:
            for boundary, call in (('from_data', lambda: env.from_data(v, ST)), ('convert', lambda: env.convert(v, ST))):
                out = observe(call)
                ctx.count('boundary_calls')
                ctx.count('special_target_calls')
                ctx.count(f"outcome_{out.kind}")
                ctx.case(('special', desc, genval.skeleton(v, 2), out.kind), nontrivial=True)
                if out.kind == 'escape' and not (v is None and isinstance(out.exc, TypeError) and 'interchange' in str(out.exc)):
                    ctx.violation('only-ConvertError-escapes', 'special', idx,
                                  {'boundary': boundary, 'type': desc, 'value': short(v, 200), 'escaped': f"{type(out.exc).__name__}: {short(str(out.exc), 200)}",
                                   'site': escape_site(out.exc)}, mech=f"special:{type(out.exc).__name__}@{escape_site(out.exc)}")

    # unsupported grammar: fails with TypeError/UnsupportedAnnotation, before any data is looked at
    def has_pep604(x, depth=0):
        import types as _types
        if isinstance(x, _types.UnionType):
            return True
        if isinstance(x, dict):
            return any(has_pep604(v, depth + 1) for v in x.values())
        if isinstance(x, tuple):
            return any(has_pep604(v, depth + 1) for v in x)
        if hasattr(x, '__pane_info__'):
            return any(has_pep604(f.type, depth + 1) for f in x.__pane_info__.fields) if depth < 4 else False
        return depth < 6 and any(has_pep604(a, depth + 1) for a in t.get_args(x))

    def body_unsupported(i, rng, ty, T):
        desc, U = unsupported_types(rng) if rng.random() < 0.9 else dup_tag_type(rng)
        if 'PEP604' in desc and not has_pep604(U):
            # typing's alias cache answered `List[int | str]` with a `List[Union[str, int]]` made earlier in this process (they compare
            # equal): what was built is a supported type, not the one this row is about
            ctx.count('pep604_normalised_by_typing_cache')
            return
        ctx.count('unsupported_checked')
        out = observe(env.make_converter, U)
        ok_exc = (TypeError, env.UnsupportedAnnotation)
        ctx.case(('unsupported', desc, out.kind), sample={'unsupported': desc, 'outcome': out.brief()[:150]})
        if out.kind == 'value' or not isinstance(out.exc, ok_exc):
            ctx.violation('unsupported-type-refused', 'unsupported', i, {'type': desc, 'py_type': short(U, 200), 'make_converter': out.brief()},
                          mech=f"unsupported:{desc.split('[')[0]}:{out.kind if out.kind == 'value' else type(out.exc).__name__}")
        trap = TrapMapping({'k': 1, 'f': 2})
        out2 = observe(env.from_data, trap, U)
        if out2.kind == 'value' or not isinstance(out2.exc, ok_exc) or trap.reads:
            ctx.violation('unsupported-type-refused-before-data', 'unsupported', i,
                          {'type': desc, 'from_data': out2.brief(), 'reads': short(trap.reads, 200)},
                          mech=f"unsupported-data:{desc.split('[')[0]}")

    drive.for_each_case(ctx, 'unsupported', max(20, ctx.budget // 10), body_unsupported, gen=lambda c, r: Ty('int'))

    # documented forms met at their edges: conditions whose predicate has no __name__ (functools.partial, operator.itemgetter, a callable
    # object) build like any other; a custom converter with only the three required methods serves a top-level scalar through convert()
    if ctx.shard == 0:
        import functools as _functools
        import operator as _operator
        A_ = env.m_annotations

        class _Multiple:
            def __init__(self, n): self.n = n
            def __call__(self, v): return v % self.n == 0

        class _EvenOnly(env.Converter):
            def expected(self, plural=False): return 'even ints' if plural else 'an even int'
            def try_convert(self, val):
                if type(val) is int and val % 2 == 0: return val
                raise env.ParseInterrupt()
            def collect_errors(self, val):
                return None if type(val) is int and val % 2 == 0 else env.m_errors.WrongTypeError(self.expected(), val)
        edge = [
            ('Condition(functools.partial)', lambda: t.Annotated[int, A_.Condition(_functools.partial(_operator.gt, 10))], [(5, True), (11, False), ('x', False)], None),
            ('Condition(operator.itemgetter)', lambda: t.Annotated[t.List[int], A_.Condition(_operator.itemgetter(0))], [([1], True), ([0, 1], False), ([], False)], None),
            ('Condition(callable object)', lambda: t.Annotated[int, A_.Condition(_Multiple(3))], [(9, True), (10, False)], None),
            ('Positive & Condition(partial)', lambda: t.Annotated[int, A_.Positive & A_.Condition(_functools.partial(_operator.gt, 10))], [(5, True), (-1, False), (20, False)], None),
            ('~Condition(partial)', lambda: t.Annotated[int, ~A_.Condition(_functools.partial(_operator.gt, 10))], [(20, True), (5, False)], None),
            ('Condition.any(partial, Negative)', lambda: t.Annotated[int, A_.Condition.any(A_.Condition(_functools.partial(_operator.lt, 100)), A_.Negative)], [(200, True), (-5, True), (50, False)], None),
            ('convert(scalar, int, custom={int: three-method converter})', lambda: int, [(4, True), (3, False), ('4', False)], {int: _EvenOnly()}),
            ('convert(scalar, Union[str, int], custom=...)', lambda: t.Union[str, int], [(4, True), ('s', True), (3, False)], {int: _EvenOnly()}),
            ('convert(list, List[int], custom=...)', lambda: t.List[int], [([4, 2], True), ([4, 3], False)], {int: _EvenOnly()}),
        ]
        class _Pairs(collections.abc.Mapping):
            """A Mapping kept as a list of pairs: its keys need not be hashable."""
            def __init__(self, pairs): self._p = list(pairs)
            def __getitem__(self, k):
                for kk, v in self._p:
                    if kk == k: return v
                raise KeyError(k)
            def __iter__(self): return (k for k, _ in self._p)
            def __len__(self): return len(self._p)
            def __repr__(self): return f"Pairs({self._p!r})"

        class _UP(env.PaneBase):
            x: int = 0

        class _UPX(env.PaneBase, allow_extra=True):
            x: int = 0

        class _UV1(env.PaneBase):
            k: t.Literal['v1'] = 'v1'
            x: int = 0

        class _UV2(env.PaneBase):
            k: t.Literal['v2'] = 'v2'
        _bad = lambda *more: _Pairs([([1, 2], 3), *more])
        edge += [
            ('dataclass <- Mapping with an unhashable key', lambda: _UP, [(_bad(), False), (_bad(('x', 1)), False), (_Pairs([('x', 1)]), True)], None),
            ('allow_extra dataclass <- Mapping with an unhashable key', lambda: _UPX, [(_bad(), True), (_bad(('x', 1)), True), (_bad(('x', 'no')), False)], None),
            ('List[dataclass] <- unhashable key', lambda: t.List[_UP], [([_bad()], False)], None),
            ('struct literal <- unhashable key', lambda: {'a': int}, [(_bad(('a', 1)), False), (_Pairs([('a', 1)]), True)], None),
            ('internally tagged union <- unhashable key', lambda: t.Annotated[t.Union[_UV1, _UV2], A_.Tagged('k')], [(_bad(('k', 'v1')), False), (_Pairs([('k', 'v1'), ('x', 2)]), True)], None),
            ('Union[int, dataclass] <- unhashable key', lambda: t.Union[int, _UP], [(_bad(), False)], None),
            ('Dict[str, int] <- unhashable key', lambda: t.Dict[str, int], [(_bad(), False)], None),
        ]
        for j, (label, mkT, rows, custom) in enumerate(edge):
            try:
                built = observe(mkT)
                conv = observe(lambda: env.make_converter(built.val)) if built.kind == 'value' and custom is None else built
                ctx.count('edge_form_cases')
                if built.kind != 'value' or conv.kind != 'value':
                    ctx.violation('only-ConvertError-escapes', 'edge-forms', j, {'form': label, 'building': (built if built.kind != 'value' else conv).brief()[:300]},
                                  mech=f"documented-form-fails-to-build:{label.split('(')[0]}")
                    continue
                for v, must in rows:
                    for bname, call in (('from_data', lambda: env.from_data(v, built.val, custom=custom)), ('convert', lambda: env.convert(v, built.val, custom=custom)),
                                        ('into_data', lambda: env.into_data(v, custom=custom) if must and custom is not None else env.from_data(v, built.val, custom=custom))):
                        o = observe(call)
                        ctx.count('edge_form_calls')
                        ok = (o.kind == 'value') if must else (o.kind == 'converr')
                        if ok and o.kind == 'converr':
                            ok = observe(str, o.exc).kind == 'value'
                        if not ok:
                            ctx.violation('only-ConvertError-escapes', 'edge-forms', j, {'form': label, 'boundary': bname, 'value': short(v, 60), 'must_accept': must, 'outcome': o.brief()[:300]},
                                          mech=f"edge-form:{bname}:{'refused' if must else type(o.exc).__name__ if o.kind == 'escape' else 'accepted'}")
                            break
            except Exception as e:
                ctx.crash('edge-forms', j, e)

    # refused values that cannot be printed (an int too long for str()): still a ConvertError, and its text can still be had
    if ctx.shard == 0:
        from .. import special
        for j, (label, TT, vv) in enumerate(special.unprintable_cases()):
            for boundary, call in (('from_data', lambda: env.from_data(vv, TT)), ('convert', lambda: env.convert(vv, TT)),
                                   ('make_converter(T).convert', lambda: env.make_converter(TT).convert(vv))):
                try:
                    out = observe(call)
                    ctx.count('unprintable_value_cases')
                    wit = {'boundary': boundary, 'type': short(TT, 100), 'value': 'an int with more digits than str() will print, as ' + label, 'outcome': out.brief()[:300]}
                    if out.kind != 'converr':
                        ctx.violation('only-ConvertError-escapes', 'unprintable', j, wit,
                                      mech=f"unprintable-value:{type(out.exc).__name__ if out.kind == 'escape' else 'accepted'}@{escape_site(out.exc) if out.kind == 'escape' else ''}")
                        continue
                    for how, f in (('str', str), ('str(tree)', lambda e: str(e.tree))):
                        r = observe(f, out.exc)
                        ctx.count('errors_rendered')
                        if r.kind != 'value':
                            ctx.violation('only-ConvertError-escapes', 'unprintable', j, {**wit, 'looking_at_the_error': how, 'raised': r.brief()[:300]},
                                          mech=f"error-text-raises:{type(r.exc).__name__}@{escape_site(r.exc)}")
                            break
                except Exception as e:
                    ctx.crash('unprintable', j, e)
