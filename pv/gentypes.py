"""Seeded recursive generator of type ASTs over the documented grammar (DESIGN §1.2)."""
import decimal
import fractions

from .tyast import Ty, FieldM, ClassM, _serial
from . import conds as C

HASHABLE_LEAVES = ('cc', 'int', 'float', 'str', 'bytes', 'none', 'bool', 'decimal', 'fraction', 'date', 'time',
                   'datetime', 'path', 'lit', 'enum', 'sub')
LEAVES = ('int', 'int', 'float', 'float', 'complex', 'bool', 'bool', 'str', 'str', 'bytes', 'bytearray', 'none',
          'decimal', 'fraction', 'date', 'time', 'datetime', 'path', 'pattern', 'any', 'sub', 'lit', 'enum', 'cc')
CONTAINERS = ('list', 'list', 'seq', 'set', 'deque', 'tup', 'tup', 'dict', 'dict', 'counter', 'struct', 'union',
              'union', 'union', 'cond', 'tagged', 'dc', 'dc', 'dc', 'ndarray', 'vol')

FIELD_NAMES = ('alpha', 'beta_two', 'my_field', 'id_num', 'url_path', 'count', 'inner_val', 'zz', 'some_long_name',
               'qq_rr', 'payload', 'opt_one', 'flag_on', 'key_name', 'data')
ALIAS_NAMES = ('aka', 'other', 'alt-name', 'Alt', 'x1', 'short', 'weird key', 'ALIAS')
STYLES = ('snake', 'camel', 'pascal', 'kebab', 'scream')
LIT_POOLS = (('a', 'b', 'c'), (1, 2, 3), ('x', 1), (True, 'yes'), (None, 'n'), (0, 1), ('', ' '), (b'k', 'k'), (1.5, 2),
             (0, False), (1, True, 'auto'), (False, 0, 'off'))
ENUM_POOLS = (
    (('A', 1), ('B', 2)), (('A', 'a'), ('B', 'b'), ('C', 'c')), (('A', 1), ('B', 'b')),
    (('A', 1.5), ('B', 2.0)), (('A', 1), ('B', 2.5)), (('N', None), ('S', 's')), (('X', 0), ('Y', 1), ('Z', 2)),
    (('P', (1, 2)), ('Q', (3,))), (('A', 'x'), ('ALIAS_A', 'x'), ('B', 'y')), (('T', True), ('S', 'f')),
)


def enum_flavour(members, rng):
    """plain Enum, or - when every value has the one kind - a data-type mix-in / IntEnum / StrEnum."""
    kinds = {type(v) for _, v in members}
    if rng.random() < 0.5 or len(kinds) != 1:
        return 'plain'
    (k,) = kinds
    if k is str:
        return rng.choice(('strmix', 'StrEnum'))
    if k is int:
        return rng.choice(('intmix', 'IntEnum'))
    if k is float:
        return 'floatmix'
    return 'plain'


def gen_leaf(rng, hashable=False, allow=None):
    pool = HASHABLE_LEAVES if hashable else LEAVES
    if allow is not None:
        pool = [k for k in pool if k in allow] or ['int']
    k = rng.choice(pool)
    return _leaf(k, rng)


def _leaf(k, rng):
    if k == 'path':
        return Ty('path', cls=rng.choice(('PurePosixPath', 'PurePath', 'Path', 'PathLike', 'PosixPath')))
    if k == 'pattern':
        return Ty('pattern', of=rng.choice((None, 'str', 'str', 'bytes')))
    if k == 'sub':
        return Ty('sub', base=rng.choice(('int', 'float', 'str', 'str', 'bytes')), picky=rng.random() < 0.35)
    if k == 'lit':
        pool = rng.choice(LIT_POOLS)
        n = rng.randint(1, len(pool))
        return Ty('lit', vals=tuple(pool[:n]))
    if k == 'enum':
        members = rng.choice(ENUM_POOLS)
        return Ty('enum', members=members, missing_hook=rng.random() < 0.25, flavour=enum_flavour(members, rng))
    return Ty(k)


def gen_type(rng, depth, lit_ok=True, hashable=False, allow=None, no_dc=False):
    """
    depth: remaining nesting budget. lit_ok: tuple/struct *literals* may only appear at the top level or
    inside other literals (typing rejects them as arguments). hashable: typed image must be hashable.
    """
    if depth <= 0 or rng.random() < 0.25:
        return gen_leaf(rng, hashable, allow)
    pool = CONTAINERS
    if hashable:
        pool = ('tup', 'seq', 'set', 'union', 'cond')
    if allow is not None:
        pool = [k for k in pool if k in allow] or None
        if pool is None:
            return gen_leaf(rng, hashable, allow)
    if no_dc:
        pool = [k for k in pool if k not in ('dc', 'tagged')] or ['list']
    k = rng.choice(pool)
    d = depth - 1

    def g(**kw):
        kw.setdefault('lit_ok', False)
        kw.setdefault('hashable', hashable)
        kw.setdefault('allow', allow)
        kw.setdefault('no_dc', no_dc)
        return gen_type(rng, d, **kw)

    if k in ('list', 'seq', 'deque'):
        if rng.random() < 0.06 and not hashable:
            return Ty(k if k != 'deque' else 'list', [Ty('any')], bare=True)
        return Ty(k, [g()])
    if k == 'set':
        res = 'frozenset' if hashable else rng.choice(('set', 'frozenset'))
        if rng.random() < 0.05:
            return Ty('set', [Ty('any')], res=res, bare=True)
        return Ty('set', [g(hashable=rng.random() < 0.93)], res=res)
    if k == 'tup':
        n = rng.choice((0, 1, 2, 2, 3, 4))
        lit = lit_ok and rng.random() < 0.5
        return Ty('tup', [gen_type(rng, d, lit_ok=lit, hashable=hashable, allow=allow, no_dc=no_dc) for _ in range(n)])
    if k == 'dict':
        if rng.random() < 0.05:
            return Ty('dict', [Ty('any'), Ty('any')], res='dict', bare=True)
        res = rng.choice(('dict', 'dict', 'dict', 'OrderedDict', 'defaultdict'))
        kt = Ty('str') if rng.random() < 0.5 else g(hashable=rng.random() < 0.95)
        return Ty('dict', [kt, g(hashable=False)], res=res)
    if k == 'counter':
        return Ty('counter', [gen_leaf(rng, True, allow)])
    if k == 'struct':
        if not lit_ok:
            return Ty('list', [g()])
        n = rng.randint(0, 3)
        keys = tuple(rng.sample(FIELD_NAMES, n))
        return Ty('struct', [gen_type(rng, d, lit_ok=True, allow=allow, no_dc=no_dc) for _ in range(n)], keys=keys)
    if k == 'union':
        n = rng.choice((2, 2, 3, 3, 4))
        ms = []
        for _ in range(n):
            m = g()
            if m.k == 'union':
                ms.extend(m.a)
            else:
                ms.append(m)
        if rng.random() < 0.3:
            ms.append(Ty('none'))
        if NO_ANY_IN_UNIONS:
            ms = [m for m in ms if not _has_any(m)] or [Ty('int')]
        ms = dedupe_members(ms)
        if len(ms) < 2:
            return ms[0]
        return Ty('union', ms)
    if k == 'cond':
        inner_kind = rng.choice(('int', 'float', 'list', 'str', 'decimal', 'seq', 'ndarray'))
        if hashable and inner_kind in ('list', 'ndarray'):
            inner_kind = 'int'
        if inner_kind == 'decimal':
            return Ty('cond', [Ty(rng.choice(('decimal', 'fraction')))], conds=[C.with_names(rng.choice(({'op': 'positive'}, {'op': 'nonneg'}, {'op': 'val_range', 'min': 0, 'max': 10})))])
        if inner_kind == 'seq':
            return Ty('cond', [Ty('seq', [Ty('int')])], conds=[C.with_names(rng.choice(({'op': 'user', 'fn': 'first_positive'}, {'op': 'nonempty'}, {'op': 'len_range', 'max': 2})))])
        if inner_kind == 'ndarray':
            return Ty('cond', [Ty('ndarray', dtype=rng.choice(('int', 'float')))],
                      conds=[C.with_names(rng.choice(({'op': 'positive'}, {'op': 'shape', 'shape': (2,)}, {'op': 'nonneg'}, {'op': 'broadcastable', 'shape': (2, 2)})))])
        if inner_kind in ('int', 'float'):
            inner = Ty(inner_kind)
            cs = [rng.choice(({'op': 'positive'}, {'op': 'negative'}, {'op': 'nonneg'}, {'op': 'nonpos'},
                              {'op': 'val_range', 'min': 0, 'max': 10}, {'op': 'val_range', 'max': 5},
                              {'op': 'user', 'fn': 'even'} if inner_kind == 'int' else {'op': 'finite'}))]
        elif inner_kind == 'list':
            inner = Ty('list', [g()])
            cs = [rng.choice(({'op': 'nonempty'}, {'op': 'empty'}, {'op': 'len_range', 'min': 1, 'max': 2}, {'op': 'len_range', 'min': 2, 'max': 2},
                              {'op': 'len_range', 'min': 1}, {'op': 'len_range', 'min': 0, 'max': 0}))]
        else:
            inner = Ty('str')
            cs = [rng.choice(({'op': 'nonempty'}, {'op': 'len_range', 'max': 3}, {'op': 'user', 'fn': 'boom'}, {'op': 'len_range', 'min': 3, 'max': 3}))]
        if inner_kind in ('int', 'float') and rng.random() < 0.3:
            cs = [rng.choice(({'op': 'val_range', 'min': 5, 'max': 5}, {'op': 'val_range', 'min': 0}, {'op': 'not', 'kid': {'op': 'positive'}},
                              {'op': 'or', 'kids': [{'op': 'negative'}, {'op': 'val_range', 'min': 5, 'max': 10}]},
                              {'op': 'and', 'kids': [{'op': 'nonneg'}, {'op': 'user', 'fn': 'small'}]}))]
        return Ty('cond', [inner], conds=[C.with_names(c) for c in cs])
    if k == 'tagged':
        return gen_tagged(rng, d, naming=rng.random() < 0.25)
    if k == 'dc':
        return Ty('dc', spec=gen_class(rng, d))
    if k == 'ndarray':
        return Ty('ndarray', dtype=rng.choice((None, 'int', 'float', 'float', 'bool', 'complex') if NDARRAY_ANY_LEAVES else ('int', 'float', 'float', 'bool')))
    if k == 'vol':
        # ValueOrList[T] is only unambiguous when T itself is not read from a sequence
        inner = gen_leaf(rng, False, allow) if rng.random() < 0.7 else Ty('dict', [Ty('str'), gen_leaf(rng, False, allow)])
        if VOL_OF_SEQUENCES and rng.random() < 0.3:
            # from_data can only ever produce the unambiguous readings of these (first member wins)
            inner = Ty(rng.choice(('list', 'seq')), [Ty(rng.choice(('int', 'str', 'float')))])
        if inner.k in ('any', 'enum') and (inner.k == 'any' or any(isinstance(v, tuple) for _, v in inner.x['members'])):
            inner = Ty('int')
        return Ty('vol', [inner])
    return gen_leaf(rng, hashable, allow)


def _same_py(a, b):
    from .tyast import build
    try:
        return build(a) == build(b)
    except Exception:
        return False


def dedupe_members(ms):
    out = []
    for m in ms:
        if not any(_same_py(m, o) for o in out):
            out.append(m)
    return out


# ---------------------------------------------------------------------------------------------
# dataclasses

DEFAULTABLE = ('cc', 'int', 'float', 'str', 'bool', 'none', 'bytes', 'decimal', 'fraction', 'lit', 'enum', 'path', 'date')


def typed_default(ty, rng):
    """A typed default value (or factory) for a field of type `ty`, or None if we do not default it."""
    from . import genval, model
    if ty.k in DEFAULTABLE or (ty.k == 'union' and all(m.k in DEFAULTABLE for m in ty.a)):
        for _ in range(4):
            v = genval.member(ty, rng, small=True)
            r = model.spec(ty, v)
            if r.v == model.ACC:
                return ('val', r.val)
        return None
    if ty.k == 'list':
        return ('fac', list)
    if ty.k == 'dict' and ty.x.get('res', 'dict') == 'dict':
        return ('fac', dict)
    if ty.k == 'set' and ty.x['res'] == 'set':
        return ('fac', set)
    if ty.k == 'seq':
        return ('val', ())
    return None


def gen_class(rng, depth, *, naming=True, variant_tag=None, allow=None, simple=False, force=None):
    """
    Generate a ClassM. variant_tag=(tagname, tagvalue): first field is `tag: Literal[v] = v` (tagged-union variant).
    """
    force = force or {}
    n = rng.choice((1, 2, 2, 3, 3, 4))
    names = rng.sample(FIELD_NAMES, n)
    opts = {}
    r = rng.random
    if not simple:
        if r() < 0.45:
            opts['in_format'] = rng.choice((('struct',), ('tuple',), ('struct', 'tuple'), ('tuple', 'struct')))
        if r() < 0.25:
            opts['out_format'] = rng.choice(('struct', 'tuple'))
        if r() < 0.2:
            opts['allow_extra'] = True
        if r() < 0.12:
            opts['kw_only'] = True
        if naming and r() < 0.3:
            which = rng.choice(('rename', 'in_rename', 'out_rename', 'in_rename_multi', 'multi_in_and_out', 'in_and_out'))
            if which == 'rename': opts['rename'] = rng.choice(STYLES)
            elif which == 'in_rename': opts['in_rename'] = rng.choice(STYLES)
            elif which == 'out_rename': opts['out_rename'] = rng.choice(STYLES)
            elif which == 'in_rename_multi': opts['in_rename'] = tuple(rng.sample(STYLES, 2))
            elif which == 'multi_in_and_out':
                # several input styles, output in one of them that is NOT the first
                ins = tuple(rng.sample(STYLES, rng.choice((2, 3))))
                opts['in_rename'], opts['out_rename'] = ins, rng.choice(ins[1:])
            else:
                opts['in_rename'], opts['out_rename'] = rng.choice(STYLES), rng.choice(STYLES)
        if r() < 0.1:
            opts['frozen'] = False
    opts.update(force)
    tuple_in = 'tuple' in opts.get('in_format', ('struct',))

    fields = []
    used_names = set(names)
    if variant_tag is not None:
        tagname, tagval = variant_tag
        used_names.add(tagname)
        names = [nm for nm in names if nm != tagname]
    for nm in names:
        fty = gen_type(rng, depth, lit_ok=False, allow=allow)
        f = FieldM(nm, fty)
        dv = typed_default(fty, rng) if r() < 0.5 else None
        if dv is not None:
            f.dflt, f.dval = dv
        if not simple:
            if r() < 0.15:
                f.kw_only = True
            if naming and r() < 0.25:
                which = rng.choice(('aliases', 'in_names', 'rename', 'out_name'))
                cand = [a for a in ALIAS_NAMES if a not in used_names]
                if cand:
                    if which == 'aliases':
                        f.aliases = tuple(rng.sample(cand, min(len(cand), rng.choice((1, 2)))))
                        used_names.update(f.aliases)
                    elif which == 'in_names':
                        f.in_names = tuple(rng.sample(cand, min(len(cand), rng.choice((1, 2)))))
                        used_names.update(f.in_names)
                    elif which == 'rename':
                        f.rename = rng.choice(cand)
                        used_names.add(f.rename)
                    else:
                        f.out_name = rng.choice(cand)
                        used_names.add(f.out_name)
            if f.has_default() and r() < 0.07:
                f.exclude = True
            if f.dflt == 'val' and r() < 0.05:
                f.init = False
                if INIT_FALSE_IMPLIES_EXCLUDE:
                    f.exclude = True
        fields.append(f)

    # a wire name that is the PYTHON name of another field which is itself renamed away (`legacy_id = field(rename='id')` beside
    # `id = field(rename='uuid')`), in either declaration order: the configured name wins (D44)
    if naming and not simple and not any(k in opts for k in ('rename', 'in_rename', 'out_rename')) and r() < 0.08:
        plain = [f for f in fields if f.init and not (f.aliases or f.in_names or f.rename or f.out_name)]
        cand = [a for a in ALIAS_NAMES if a not in used_names]
        if len(plain) >= 2 and cand:
            fa, fb = rng.sample(plain, 2)
            fa.rename = rng.choice(cand)
            used_names.add(fa.rename)
            fb.rename = fa.name
            if r() < 0.3:
                fa.rename = fb.name          # a full swap

    # legal order: required positional, defaulted positional, keyword-only (defaults required if tuple input)
    for f in fields:
        if (f.kw_only or opts.get('kw_only')) and tuple_in and not f.has_default():
            if opts.get('kw_only'):
                dv = typed_default(f.ty, rng)
                if dv is None:
                    f.ty = Ty('int')
                    dv = ('val', 0)
                f.dflt, f.dval = dv
            else:
                f.kw_only = False
    pos_req = [f for f in fields if not f.kw_only and not f.has_default()]
    pos_def = [f for f in fields if not f.kw_only and f.has_default()]
    kws = [f for f in fields if f.kw_only]
    fields = pos_req + pos_def + kws
    if variant_tag is not None:
        tagf = FieldM(tagname, Ty('lit', vals=(tagval,)), dflt='val', dval=tagval)
        if pos_req:
            tagf.kw_only = True
            # keyword-only + tuple input needs defaults: it has one
            fields = pos_req + pos_def + [tagf] + kws
        else:
            fields = [tagf] + fields
    post_init = None
    if not simple and r() < 0.12:
        post_init = rng.choice(('ok', 'ok', 'raise'))
        cands = [f for f in fields if f.ty.k in ('int', 'str') and f.init]
        if INIT_FALSE_IMPLIES_EXCLUDE:
            cands = [f for f in cands if not f.exclude]
        if cands and r() < 0.6:
            f = rng.choice(cands)
            post_init = ('raise_if', f.name, 7 if f.ty.k == 'int' else 'abc')
        elif not INIT_FALSE_IMPLIES_EXCLUDE and r() < 0.5:
            # a hook deciding by the record of explicitly given fields (not in round-trip workloads: the written form gives every field)
            cands = [f for f in fields if f.init and f.has_default() and not f.exclude]
            if cands:
                post_init = ('raise_if_set', rng.choice(cands).name)
    spec = ClassM(f"K{next(_serial)}", fields, opts, post_init)
    spec.tagval = variant_tag[1] if variant_tag else None
    return spec


# set by C05/C06/C19: round-trip workloads only use init=False fields that are also excluded, and validation
# hooks that do not depend on excluded fields
INIT_FALSE_IMPLIES_EXCLUDE = False
# object-dtype arrays holding arbitrary containers are outside what the docs describe; round-trip workloads use typed dtypes
NDARRAY_ANY_LEAVES = True
# a union with an Any-reading member ahead of others is degenerate for fixed-point checks (Any re-reads every serialised form)
NO_ANY_IN_UNIONS = False
# ValueOrList[List[..]]: natively built from_list([]) is ambiguous, values produced by from_data are not
VOL_OF_SEQUENCES = True


def _has_any(ty, depth=0):
    if ty.k == 'any' or ty.x.get('bare'):
        return True
    kids = list(ty.a) + ([f.ty for f in ty.x['spec'].fields if f.name != '_KW_ONLY_'] if ty.k == 'dc' else [])
    return depth < 8 and any(_has_any(c, depth + 1) for c in kids)

TAG_POOLS = (('v1', 'v2', 'v3', 'v4'), (1, 2, 3, 4), ('a', 2, None, True), (10, 'ten', 10.5, b'x'))


def gen_tagged(rng, depth, layout=None, overlap=None, naming=False):
    n = rng.choice((2, 2, 3, 4))
    pool = rng.choice(TAG_POOLS)
    tagname = rng.choice(('tag', 'kind', 'type_of'))
    if layout is None:
        layout = rng.choice((False, False, True, ('t', 'c')))
    ext_as_list = isinstance(layout, tuple) and rng.random() < 0.3    # Tagged(..., external=['t', 'c']) is accepted too
    variants = []
    base = None
    for i in range(n):
        if overlap and base is not None and rng.random() < 0.6:
            # overlapping body: same fields as the first variant
            spec0 = base.x['spec']
            fs = [FieldM(f.name, f.ty, f.dflt, f.dval, kw_only=f.kw_only) for f in spec0.fields if f.name != tagname]
            tagf = FieldM(tagname, Ty('lit', vals=(pool[i],)), dflt='val', dval=pool[i],
                          kw_only=any(not f.has_default() and not f.kw_only for f in fs))
            req = [f for f in fs if not f.has_default() and not f.kw_only]
            rest = [f for f in fs if f not in req]
            fields = (req + [f for f in rest if not f.kw_only] + [tagf] + [f for f in rest if f.kw_only]) if tagf.kw_only else [tagf] + fs
            spec = ClassM(f"K{next(_serial)}", fields, dict(spec0.opts), None)
            spec.tagval = pool[i]
        else:
            spec = gen_class(rng, max(depth - 1, 0), naming=naming, variant_tag=(tagname, pool[i]), simple=rng.random() < 0.6,
                             force={'in_format': ('struct',)} if rng.random() < 0.7 else None)
            if 'struct' not in spec.opt('in_format') and layout is False:
                spec.opts['in_format'] = ('struct', 'tuple')
            if layout is False and spec.opt('out_format') != 'struct':
                spec.opts.pop('out_format', None)   # the internal layout lives inside the variant's own mapping
        v = Ty('dc', spec=spec)
        base = base or v
        variants.append(v)
    return Ty('tagged', variants, tag=tagname, external=layout, ext_as_list=ext_as_list)
