"""Runtime-monitoring harness for hexane360/pane (see /verif/DESIGN.md)."""
