"""
Reach monitor: which functions / lines of $PANE_REPO/pane were executed in this shard.

sys.monitoring (tool id 3), PY_START + LINE events; every location returns DISABLE after
its first hit, so the steady-state cost is nil.  Anchor functions are declared by qualified
name ("converters:TupleConverter.try_convert") so that line shifts do not matter.
"""
import os
import sys

from . import env

TOOL = 3
_prefix = os.path.join(env.PANE_REPO, 'pane') + os.sep
entered = set()      # "module:qualname"
lines = {}           # "module:qualname" -> set(lineno)
_active = False


def _modname(filename):
    rel = filename[len(_prefix):]
    return rel[:-3].replace(os.sep, '.') if rel.endswith('.py') else rel


def _on_start(code, offset):
    fn = code.co_filename
    if fn.startswith(_prefix):
        entered.add(f"{_modname(fn)}:{code.co_qualname}")
    return sys.monitoring.DISABLE


def _on_line(code, lineno):
    fn = code.co_filename
    if fn.startswith(_prefix):
        lines.setdefault(f"{_modname(fn)}:{code.co_qualname}", set()).add(lineno)
    return sys.monitoring.DISABLE


def start():
    global _active
    if _active:
        return
    mon = sys.monitoring
    try:
        mon.use_tool_id(TOOL, 'pv-reach')
    except ValueError:
        return
    mon.register_callback(TOOL, mon.events.PY_START, _on_start)
    mon.register_callback(TOOL, mon.events.LINE, _on_line)
    mon.set_events(TOOL, mon.events.PY_START | mon.events.LINE)
    _active = True


def stop():
    global _active
    if not _active:
        return
    sys.monitoring.set_events(TOOL, 0)
    sys.monitoring.free_tool_id(TOOL)
    _active = False


def summary(anchors):
    """anchors: list of 'module:qualname'. Returns dict for the shard report."""
    out = {}
    for a in anchors:
        out[a] = {'entered': a in entered, 'lines': sorted(lines.get(a, ()))}
    return out
