"""
./check <ID> [--tier quick|thorough] [--seed N] [--replay path]

Splits a property's workload into shards (fresh interpreter each, up to 16 at a time),
merges the shard reports, classifies violations against known_findings.json, writes
evidence/<ID>.json and prints the verdict:

  exit 0  every monitored execution satisfied the oracle (KNOWN-FINDING lines for listed findings)
  exit 1  VIOLATION property=<id> replay=<path>   (an unexplained refutation)
  exit 2  INCONCLUSIVE property=<id> reason=...   (monitor blinded / watchdog / too few cases)
"""
import argparse
import concurrent.futures
import hashlib
import importlib
import json
import os
import subprocess
import sys
import tempfile
import time

ROOT = os.path.dirname(os.path.dirname(os.path.abspath(__file__)))
PY = '/venv/bin/python' if os.path.exists('/venv/bin/python') else sys.executable


def _env(seed=0):
    env = dict(os.environ)
    env.setdefault('PANE_REPO', '/repo')
    # str hashes (hence set / frozenset iteration order inside pane and the harness) vary with the seed too
    env['PYTHONHASHSEED'] = str(int(seed) % 4294967295)
    env['PYTHONDONTWRITEBYTECODE'] = '1'
    env['PYTHONPATH'] = ROOT
    return env


def _run_one(prop, tier, seed, shard, nshards, budget, tmpdir, timeout, extra_env):
    out = os.path.join(tmpdir, f"shard{shard}.json")
    cmd = [PY, '-B', '-m', 'pv.shard', prop, tier, str(seed), str(shard), str(nshards), str(budget), out]
    env = _env(seed)
    env.update(extra_env or {})
    t0 = time.time()
    try:
        p = subprocess.run(cmd, cwd=ROOT, env=env, timeout=timeout, capture_output=True, text=True)
    except subprocess.TimeoutExpired:
        return {'shard': shard, 'failed': f"watchdog: shard {shard} exceeded {timeout}s"}
    if p.returncode != 0 or not os.path.exists(out):
        return {'shard': shard, 'failed': f"shard {shard} exited {p.returncode}: {(p.stderr or '')[-800:]}"}
    with open(out) as f:
        rep = json.load(f)
    rep['proc_wall_s'] = time.time() - t0
    return rep


def load_findings():
    path = os.path.join(ROOT, 'known_findings.json')
    if not os.path.exists(path):
        return {'known': [], 'fixed': []}
    with open(path) as f:
        return json.load(f)


def main(argv=None):
    ap = argparse.ArgumentParser()
    ap.add_argument('prop')
    ap.add_argument('--tier', default=os.environ.get('VERIF_TIER', 'quick'), choices=['quick', 'thorough'])
    ap.add_argument('--seed', type=int, default=int(os.environ.get('VERIF_SEED', '0') or 0))
    ap.add_argument('--replay')
    ap.add_argument('--jobs', type=int, default=int(os.environ.get('VERIF_JOBS', '16')))
    ap.add_argument('--no-evidence', action='store_true', help="do not rewrite evidence/<ID>.json (self-test runs)")
    args = ap.parse_args(argv)
    prop = args.prop.upper()

    os.environ.setdefault('PANE_REPO', '/repo')
    sys.path.insert(0, ROOT)

    if args.replay:
        return replay(prop, args.replay)

    t0 = time.time()
    mod = importlib.import_module(f'pv.props.{prop.lower()}')
    plan = mod.PLAN[args.tier]
    nshards, budget = plan['shards'], plan['budget']
    timeout = plan.get('timeout', 900 if args.tier == 'quick' else 7200)
    extra_env = getattr(mod, 'SHARD_ENV', None)

    reports = []
    with tempfile.TemporaryDirectory(prefix=f'pv-{prop}-') as tmpdir:
        with concurrent.futures.ThreadPoolExecutor(max_workers=args.jobs) as ex:
            futs = [ex.submit(_run_one, prop, args.tier, args.seed, s, nshards, budget, tmpdir, timeout, extra_env)
                    for s in range(nshards)]
            for f in futs:
                reports.append(f.result())

    return conclude(prop, mod, args, reports, time.time() - t0)


def conclude(prop, mod, args, reports, wall):
    findings = load_findings()
    known = {k['mechanism']: k for k in findings.get('known', []) if k['property'] == prop}

    inconclusive = []
    evaluations = 0
    distinct = set()
    samples = []
    counters = {}
    sets = {}
    viol_counts = {}
    violations = []
    reach = {}
    exhaustive = {}
    for r in reports:
        if 'failed' in r:
            inconclusive.append(r['failed'])
            continue
        evaluations += r['evaluations']
        distinct.update(r['distinct'])
        for s in r['samples']:
            if len(samples) < 8:
                samples.append(s)
        for k, v in r['counters'].items():
            counters[k] = counters.get(k, 0) + v
        for k, v in r['sets'].items():
            sets.setdefault(k, set()).update(v)
        for k, v in r['viol_counts'].items():
            viol_counts[k] = viol_counts.get(k, 0) + v
        violations.extend(r['violations'])
        for reason in r['inconclusive']:
            if reason not in inconclusive:
                inconclusive.append(reason)
        for a, info in r['reach'].items():
            cur = reach.setdefault(a, {'entered': False, 'lines': set()})
            cur['entered'] = cur['entered'] or info['entered']
            cur['lines'].update(info['lines'])
        for k, v in r.get('exhaustive', {}).items():
            exhaustive[k] = exhaustive.get(k, True) and v

    # reach: every declared anchor must have been entered somewhere
    for a, info in reach.items():
        if not info['entered']:
            inconclusive.append(f"anchor function never entered: {a}")
    # property-specific minimums on monitor counters
    for name, minimum in getattr(mod, 'MIN_COUNTERS', {}).get(args.tier, getattr(mod, 'MIN_COUNTERS', {}).get('quick', {})).items():
        if counters.get(name, 0) < minimum:
            inconclusive.append(f"monitor counter {name}={counters.get(name, 0)} below minimum {minimum}")
    post = getattr(mod, 'post_merge', None)
    if post is not None:
        for reason in post(counters, sets, args.tier) or []:
            inconclusive.append(reason)

    unexplained = [v for v in violations if v['mech'] not in known]
    explained = {}
    for v in violations:
        if v['mech'] in known:
            explained.setdefault(v['mech'], v)
    # a mechanism counted but whose examples were truncated still must be classified
    for key, n in viol_counts.items():
        mech = key.split('|', 1)[1]
        if mech in known:
            explained.setdefault(mech, None)

    replay_paths = []
    if unexplained:
        rdir = os.path.join(ROOT, 'replays', prop)
        os.makedirs(rdir, exist_ok=True)
        seen = set()
        for v in unexplained:
            sig = (v['oracle'], v['mech'])
            if sig in seen and len(replay_paths) >= 5:
                continue
            seen.add(sig)
            body = {'property': prop, 'tier': args.tier, 'seed': args.seed,
                    'budget': mod.PLAN[args.tier]['budget'], **v}
            digest = hashlib.blake2b(json.dumps(body, sort_keys=True, default=str).encode(), digest_size=6).hexdigest()
            path = os.path.join(rdir, f"{digest}.json")
            with open(path, 'w') as f:
                json.dump(body, f, indent=1, default=str)
            replay_paths.append((path, v))
            if len(replay_paths) >= 12:
                break

    n_viol_total = sum(viol_counts.values())
    n_known = sum(n for key, n in viol_counts.items() if key.split('|', 1)[1] in known)

    level = getattr(mod, 'LEVEL', 'exploration')
    coverage = {
        'evaluations': evaluations,
        'distinct_nontrivial': len(distinct),
        'rule': getattr(mod, 'RULE', ''),
        'samples': samples or ['(no sample recorded)'],
        'exhaustive': bool(exhaustive) and all(exhaustive.values()) and getattr(mod, 'EXHAUSTIVE_WHOLE', False),
        'exhaustive_subspaces': exhaustive,
        'monitor_counters': dict(sorted(counters.items())),
        'observed_sets': {k: sorted(v)[:60] for k, v in sorted(sets.items()) if k != 'harness_tracebacks'},
        'observed_set_sizes': {k: len(v) for k, v in sorted(sets.items())},
        'anchors': {a: {'entered': i['entered'], 'lines_executed': len(i['lines'])} for a, i in sorted(reach.items())},
        'shards': len(reports),
        'violations_by_oracle_and_mechanism': viol_counts,
        'known_finding_hits': n_known,
        'inconclusive_reasons': inconclusive,
        'pane_repo': os.environ.get('PANE_REPO', '/repo'),
    }
    evidence = {
        'property_id': prop, 'tier': args.tier, 'seed': args.seed, 'level': level,
        'coverage': coverage,
        'assumptions': list(getattr(mod, 'ASSUMPTIONS', [])),
        'wall_s': round(wall, 2),
        'violations': n_viol_total - n_known,
    }
    if not args.no_evidence:
        os.makedirs(os.path.join(ROOT, 'evidence'), exist_ok=True)
        with open(os.path.join(ROOT, 'evidence', f'{prop}.json'), 'w') as f:
            json.dump(evidence, f, indent=1, default=str)

    print(f"[{prop}] tier={args.tier} seed={args.seed} shards={len(reports)} evaluations={evaluations} "
          f"distinct_nontrivial={len(distinct)} wall={wall:.1f}s")
    for k in sorted(counters):
        print(f"    {k} = {counters[k]}")
    for key in sorted(viol_counts):
        print(f"    refutations[{key}] = {viol_counts[key]}")
    for mech in sorted(explained):
        k = known[mech]
        print(f"KNOWN-FINDING: property={prop} {mech}: {k['what']}")
    if 'harness_tracebacks' in sets:
        for tb in list(sets['harness_tracebacks'])[:3]:
            print("HARNESS-ERROR:\n" + tb)
    if replay_paths:
        for path, v in replay_paths:
            print(f"VIOLATION property={prop} replay={path}")
            print(f"    oracle={v['oracle']} mech={v['mech']} witness={json.dumps(v['witness'], default=str)[:700]}")
        return 1
    if inconclusive:
        for reason in inconclusive[:10]:
            print(f"INCONCLUSIVE property={prop} reason={reason}")
        return 2
    print(f"[{prop}] held on everything observed")
    return 0


def replay(prop, path):
    with open(path) as f:
        body = json.load(f)
    from pv.shard import run_shard
    rep = run_shard(prop, body['tier'], body['seed'], body['shard'], body['nshards'], body['budget'],
                    replay={'sub': body['sub'], 'case': body['case']})
    print(f"replay of {path}: sub={body['sub']} case={body['case']} shard={body['shard']}/{body['nshards']}")
    print("recorded witness:", json.dumps(body['witness'], indent=1, default=str))
    if rep['replay_out']:
        for v in rep['replay_out']:
            print("REPRODUCED:", json.dumps(v, indent=1, default=str)[:3000])
        print(f"VIOLATION property={prop} replay={path}")
        return 1
    print("not reproduced on the current tree (oracle satisfied for that case)")
    if rep['inconclusive']:
        print("notes:", rep['inconclusive'])
    return 0


if __name__ == '__main__':
    sys.exit(main())
