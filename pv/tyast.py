"""
Type-expression AST (`Ty`) for the documented type grammar, plus the builder that turns an
AST node into a real Python type object, in one of several equivalent spellings.

The AST is what the reference model (pv.model) interprets; the Python object is what `pane` sees.
"""
import collections
import collections.abc
import datetime
import decimal
import enum
import fractions
import itertools
import os
import pathlib
import re
import typing as t

from . import env

_serial = itertools.count()


class Ty:
    """AST node. k = kind, a = child nodes, x = extra parameters (plain Python data)."""
    __slots__ = ('k', 'a', 'x', '_obj')

    def __init__(self, k, a=(), **x):
        self.k = k
        self.a = tuple(a)
        self.x = x
        self._obj = None     # cached Python class for class-like kinds (enum, sub, dc)

    def __repr__(self):
        return describe(self)

    def depth(self):
        kids = list(self.a)
        if self.k == 'dc':
            kids += [f.ty for f in self.x['spec'].fields]
        return 1 + max((c.depth() for c in kids), default=-1) if kids or self.k in COMPOSITE else 0


SCALARS = ('cc', 'int', 'float', 'complex', 'bool', 'str', 'bytes', 'bytearray', 'none', 'decimal', 'fraction',
           'date', 'time', 'datetime', 'path', 'pattern', 'any', 'sub')
COMPOSITE = ('list', 'seq', 'set', 'deque', 'tup', 'dict', 'counter', 'struct', 'union', 'lit', 'enum',
             'cond', 'tagged', 'dc', 'ndarray', 'vol', 'range')


# -------------------------------------------------------------------------------------------
# the documented user-converter pattern (docs/using/advanced.md): a class with the HasConverter protocol


class CountryCode:
    def __init__(self, code):
        self.code = code

    def __eq__(self, other):
        return type(other) is CountryCode and self.code == other.code

    def __hash__(self):
        return hash(('cc', self.code))

    def __repr__(self):
        return f"CountryCode({self.code!r})"

    @classmethod
    def _converter(cls, *args, handlers):
        if len(args):
            raise TypeError("'CountryCode' doesn't support type arguments")
        return CountryCodeConverter(cls)


class CountryCodeConverter(env.Converter):
    countries = {'gb', 'us', 'cn', 'uk'}

    def __init__(self, ty):
        self.ty = ty

    def expected(self, plural=False):
        return "country codes" if plural else "a country code"

    def into_data(self, val):
        return val.code if isinstance(val, CountryCode) else val

    def try_convert(self, val):
        if isinstance(val, CountryCode):
            return val
        if not isinstance(val, str):
            raise env.ParseInterrupt()
        if val not in self.countries:
            raise env.ParseInterrupt()
        return self.ty(val)

    def collect_errors(self, val):
        if isinstance(val, CountryCode):
            return None
        if not isinstance(val, str):
            return env.m_errors.WrongTypeError(self.expected(), val)
        if val not in self.countries:
            return env.m_errors.WrongTypeError(self.expected(), val, info=f"Unknown country code '{val}'")
        return None


# -------------------------------------------------------------------------------------------
# dataclass model


class FieldM:
    def __init__(self, name, ty, dflt='req', dval=None, kw_only=False, init=True, exclude=False,
                 aliases=None, in_names=None, rename=None, out_name=None,
                 compare=True, hash=None, repr=True, converter=None):
        self.name = name
        self.ty = ty
        self.dflt = dflt          # 'req' | 'val' | 'fac'
        self.dval = dval          # 'val': the typed default itself; 'fac': zero-arg callable
        self.kw_only = kw_only
        self.init = init
        self.exclude = exclude
        self.aliases = aliases
        self.in_names = in_names
        self.rename = rename
        self.out_name = out_name
        self.compare = compare
        self.hash = hash
        self.repr = repr
        self.converter = converter

    def has_default(self):
        return self.dflt != 'req'

    def brief(self):
        bits = [f"{self.name}: {describe(self.ty)}"]
        if self.dflt == 'val':
            bits.append(f"= {self.dval!r}")
        elif self.dflt == 'fac':
            bits.append("= factory")
        for k in ('kw_only', 'exclude'):
            if getattr(self, k):
                bits.append(k)
        if not self.init:
            bits.append('init=False')
        for k in ('aliases', 'in_names', 'rename', 'out_name'):
            if getattr(self, k) is not None:
                bits.append(f"{k}={getattr(self, k)!r}")
        return ' '.join(bits)


class ClassM:
    """Model of one pane dataclass definition (no inheritance; C17 has its own hierarchy model)."""

    def __init__(self, name, fields, opts=None, post_init=None):
        self.name = name
        self.fields = list(fields)      # declaration order
        self.opts = dict(opts or {})    # only explicitly passed class options
        self.post_init = post_init      # None | 'ok' | 'raise' | ('raise_if', fieldname, value) | ('raise_if_set', fieldname)
        self.serial = next(_serial)

    # effective options (pane defaults)
    def opt(self, name):
        defaults = dict(in_format=('struct',), out_format='struct', allow_extra=False, kw_only=False,
                        frozen=True, eq=True, order=True, rename=None, in_rename=None, out_rename=None)
        if name == 'in_rename':
            if self.opts.get('rename') is not None:
                return (self.opts['rename'],)
            v = self.opts.get('in_rename')
            return (v,) if isinstance(v, str) else (tuple(v) if v is not None else None)
        if name == 'out_rename':
            if self.opts.get('rename') is not None:
                return self.opts['rename']
            return self.opts.get('out_rename')
        return self.opts.get(name, defaults[name])

    def ordered_fields(self):
        """Effective field order: positional first, keyword-only moved behind (stable)."""
        kw_cls = self.opt('kw_only')
        pos, kw = [], []
        seen_marker = False
        for f in self.fields:
            if f.name == '_KW_ONLY_':
                seen_marker = True
                continue
            (kw if (f.kw_only or kw_cls or seen_marker) else pos).append(f)
        return pos + kw

    def is_kw(self, f):
        if self.opt('kw_only') or f.kw_only:
            return True
        seen = False
        for g in self.fields:
            if g.name == '_KW_ONLY_':
                seen = True
            elif g is f:
                return seen
        return False

    def brief(self):
        o = ', '.join(f"{k}={v!r}" for k, v in sorted(self.opts.items()))
        fs = '; '.join(f.brief() for f in self.fields)
        pi = f" post_init={self.post_init}" if self.post_init else ''
        return f"class {self.name}({o}){{{fs}}}{pi}"


# -------------------------------------------------------------------------------------------
# description (stable, spelling-independent)


def describe(ty: Ty) -> str:
    k = ty.k
    if k in ('int', 'float', 'complex', 'bool', 'str', 'bytes', 'bytearray', 'none', 'decimal', 'fraction',
             'date', 'time', 'datetime', 'any', 'cc'):
        return k
    if k == 'path':
        return f"path<{ty.x['cls']}>"
    if k == 'pattern':
        return f"pattern<{ty.x.get('of')}>"
    if k == 'sub':
        return f"sub<{ty.x['base']}{',picky' if ty.x.get('picky') else ''}>"
    if k in ('list', 'seq', 'deque', 'vol'):
        return f"{k}[{describe(ty.a[0])}]"
    if k == 'set':
        return f"{ty.x['res']}[{describe(ty.a[0])}]"
    if k == 'tup':
        return f"tup[{', '.join(map(describe, ty.a))}]"
    if k == 'dict':
        return f"{ty.x.get('res', 'dict')}[{describe(ty.a[0])}, {describe(ty.a[1])}]"
    if k == 'counter':
        return f"counter[{describe(ty.a[0])}]"
    if k == 'struct':
        return "struct{" + ', '.join(f"{n!r}: {describe(c)}" for n, c in zip(ty.x['keys'], ty.a)) + "}"
    if k == 'union':
        return "union[" + ', '.join(map(describe, ty.a)) + "]"
    if k == 'lit':
        return f"lit{list(ty.x['vals'])!r}"
    if k == 'enum':
        fl = ty.x.get('flavour') or 'plain'
        return f"enum{'' if fl == 'plain' else '<' + fl + '>'}{[v for (_, v) in ty.x['members']]!r}"
    if k == 'cond':
        return f"cond[{describe(ty.a[0])}; {', '.join(c['name'] for c in ty.x['conds'])}]"
    if k == 'tagged':
        return f"tagged<{ty.x['tag']},{ty.x['external']}>[" + ', '.join(map(describe, ty.a)) + "]"
    if k == 'dc':
        return ty.x['spec'].brief()
    if k == 'ndarray':
        return f"ndarray<{ty.x.get('dtype')}>"
    if k == 'range':
        return f"range<{ty.x['num']}>"
    return k


def skeleton(ty: Ty, depth=4) -> str:
    """Coarser description used for distinct-case keys: kinds only, bounded depth."""
    if depth == 0:
        return '_'
    kids = list(ty.a)
    if ty.k == 'dc':
        s = ty.x['spec']
        return f"dc<{','.join(sorted(f'{k}={v}' for k, v in s.opts.items()))}>(" + ','.join(
            f"{skeleton(f.ty, depth - 1)}{'?' if f.has_default() else ''}{'*' if f.kw_only else ''}" for f in s.fields) + ")"
    extra = ''
    if ty.k in ('set', 'dict'):
        extra = ty.x.get('res', '')
    if ty.k == 'tagged':
        extra = str(ty.x['external'])
    if ty.k == 'enum' and (ty.x.get('flavour') or 'plain') != 'plain':
        extra = '<' + ty.x['flavour'] + '>'
    return f"{ty.k}{extra}(" + ','.join(skeleton(c, depth - 1) for c in kids) + ")" if kids else f"{ty.k}{extra}"


# -------------------------------------------------------------------------------------------
# Python-object builder

_PATHS = {
    'PurePosixPath': pathlib.PurePosixPath, 'PurePath': pathlib.PurePath, 'Path': pathlib.Path,
    'PosixPath': pathlib.PosixPath, 'PathLike': os.PathLike,
}
_SUB_BASES = {'int': int, 'float': float, 'str': str, 'bytes': bytes}

SPELLINGS = {
    'list': ('List', 'list', 'MutableSequence', 'abcMutableSequence'),
    'seq': ('Sequence', 'abcSequence', 'TupleVar', 'tuplevar'),
    'deque': ('Deque', 'deque'),
    'tup': ('Tuple', 'tuple', 'lit'),
    'union': ('flat', 'nested', 'optional'),
}


_UNCACHED_SPELLINGS = {'list', 'abcMutableSequence', 'abcSequence', 'tuplevar', 'deque', 'set', 'abcMutableSet', 'frozenset', 'abcSet',
                       'tuple', 'lit', 'dict', 'abcMapping', 'abcMutableMapping', 'collections'}


def _mk_sub(ty):
    base = _SUB_BASES[ty.x['base']]
    ns = {}
    if ty.x.get('picky'):
        # a subclass whose constructor refuses some well-typed values (a port number, a non-blank name)
        def __new__(cls, v={str: '', bytes: b''}.get(base, 0)):
            if base in (str, bytes):
                if not v or (b' ' if base is bytes else ' ') in v:
                    raise ValueError(f"picky: blank or spaced name {v!r}")
            elif v != v or v < 0:
                raise ValueError(f"picky: must be non-negative, got {v!r}")
            return base.__new__(cls, v)
        ns['__new__'] = __new__
    return type(f"My{base.__name__.title()}{next(_serial)}", (base,), ns)


_ENUM_BASES = {'plain': (enum.Enum,), 'strmix': (str, enum.Enum), 'StrEnum': (enum.StrEnum,), 'intmix': (int, enum.Enum),
               'IntEnum': (enum.IntEnum,), 'floatmix': (float, enum.Enum)}


def _mk_enum(ty):
    bases = _ENUM_BASES[ty.x.get('flavour') or 'plain']
    name = f"E{next(_serial)}"
    ns = enum.EnumMeta.__prepare__(name, bases)
    for n, v in ty.x['members']:
        try:
            ns[n] = v
        except TypeError:
            pass
    if ty.x.get('missing_hook'):
        # an Enum with a _missing_ hook: calling the class resolves more values than the members' own values
        def _missing_(cls, value):
            for m in cls:
                if str(m.value).lower() == str(value).lower() or m.name.lower() == str(value).lower():
                    return m
            return None
        ns['_missing_'] = classmethod(_missing_)
    ns['__module__'] = __name__
    return enum.EnumMeta(name, bases, ns)


def py_class(ty: Ty):
    """The (cached) Python class of a class-like node."""
    if ty._obj is None:
        if ty.k == 'sub':
            ty._obj = _mk_sub(ty)
        elif ty.k == 'enum':
            ty._obj = _mk_enum(ty)
        elif ty.k == 'dc':
            ty._obj = build_class(ty.x['spec'])
        else:
            raise ValueError(ty.k)
    return ty._obj


def build(ty: Ty, rng=None, lit_ok=True, uncached=False):
    """
    Build a Python type object for `ty`. `rng` (random.Random or None) chooses among equivalent
    spellings at every node; None gives the canonical spelling. Every call creates fresh alias
    objects (class-like nodes keep their cached class).
    """
    def pick(options):
        if uncached:
            # spellings whose alias objects typing does not cache (PEP 585 / collections.abc generics): their
            # arguments keep the order they were written in
            safe = [o for o in options if o in _UNCACHED_SPELLINGS]
            options = safe or options
        return options[0] if rng is None else rng.choice(options)

    def sub(c, lit=False):
        return build(c, rng, lit_ok=lit, uncached=uncached)

    k = ty.k
    if k == 'int': return int
    if k == 'float': return float
    if k == 'complex': return complex
    if k == 'bool': return bool
    if k == 'str': return str
    if k == 'bytes': return bytes
    if k == 'bytearray': return bytearray
    if k == 'none': return type(None)
    if k == 'decimal': return decimal.Decimal
    if k == 'fraction': return fractions.Fraction
    if k == 'date': return datetime.date
    if k == 'time': return datetime.time
    if k == 'datetime': return datetime.datetime
    if k == 'any': return t.Any
    if k == 'cc': return CountryCode
    if k == 'path': return _PATHS[ty.x['cls']]
    if k == 'pattern':
        of = ty.x.get('of')
        base = pick((re.Pattern, t.Pattern))
        if of is None:
            return base
        return base[str if of == 'str' else bytes]
    if k in ('sub', 'enum', 'dc'):
        return py_class(ty)
    if k == 'list':
        if ty.x.get('bare'):
            return list
        e = sub(ty.a[0])
        s = pick(SPELLINGS['list'])
        return {'List': lambda: t.List[e], 'list': lambda: list[e], 'MutableSequence': lambda: t.MutableSequence[e],
                'abcMutableSequence': lambda: collections.abc.MutableSequence[e]}[s]()
    if k == 'seq':
        if ty.x.get('bare'):
            return tuple
        e = sub(ty.a[0])
        s = pick(SPELLINGS['seq'])
        return {'Sequence': lambda: t.Sequence[e], 'abcSequence': lambda: collections.abc.Sequence[e],
                'TupleVar': lambda: t.Tuple[e, ...], 'tuplevar': lambda: tuple[e, ...]}[s]()
    if k == 'deque':
        e = sub(ty.a[0])
        return t.Deque[e] if pick(SPELLINGS['deque']) == 'Deque' else collections.deque[e]
    if k == 'set':
        res = ty.x['res']
        if ty.x.get('bare'):
            return set if res == 'set' else frozenset
        e = sub(ty.a[0])
        if res == 'set':
            s = pick(('Set', 'set', 'MutableSet', 'abcMutableSet'))
            return {'Set': lambda: t.Set[e], 'set': lambda: set[e], 'MutableSet': lambda: t.MutableSet[e],
                    'abcMutableSet': lambda: collections.abc.MutableSet[e]}[s]()
        s = pick(('FrozenSet', 'frozenset', 'AbstractSet', 'abcSet'))
        return {'FrozenSet': lambda: t.FrozenSet[e], 'frozenset': lambda: frozenset[e],
                'AbstractSet': lambda: t.AbstractSet[e], 'abcSet': lambda: collections.abc.Set[e]}[s]()
    if k == 'tup':
        s = pick(SPELLINGS['tup']) if lit_ok else pick(SPELLINGS['tup'][:2])
        if s == 'lit':
            return tuple(sub(c, lit=True) for c in ty.a)
        es = tuple(sub(c) for c in ty.a)
        if not es:
            return t.Tuple[()] if s == 'Tuple' else tuple[()]
        return t.Tuple[es] if s == 'Tuple' else tuple[es]
    if k == 'dict':
        res = ty.x.get('res', 'dict')
        if ty.x.get('bare'):
            return dict
        kk, vv = sub(ty.a[0]), sub(ty.a[1])
        if res == 'dict':
            s = pick(('Dict', 'dict', 'Mapping', 'MutableMapping', 'abcMapping', 'abcMutableMapping'))
            return {'Dict': lambda: t.Dict[kk, vv], 'dict': lambda: dict[kk, vv], 'Mapping': lambda: t.Mapping[kk, vv],
                    'MutableMapping': lambda: t.MutableMapping[kk, vv],
                    'abcMapping': lambda: collections.abc.Mapping[kk, vv],
                    'abcMutableMapping': lambda: collections.abc.MutableMapping[kk, vv]}[s]()
        if res == 'OrderedDict':
            return t.OrderedDict[kk, vv] if pick(('typing', 'collections')) == 'typing' else collections.OrderedDict[kk, vv]
        if res == 'defaultdict':
            return t.DefaultDict[kk, vv] if pick(('typing', 'collections')) == 'typing' else collections.defaultdict[kk, vv]
        raise ValueError(res)
    if k == 'counter':
        kk = sub(ty.a[0])
        return t.Counter[kk] if pick(('typing', 'collections')) == 'typing' else collections.Counter[kk]
    if k == 'struct':
        return {n: sub(c, lit=True) for n, c in zip(ty.x['keys'], ty.a)}
    if k == 'union':
        ms = [sub(c) for c in ty.a]
        s = 'flat' if uncached else pick(SPELLINGS['union'])
        obj = None
        if s == 'nested' and len(ms) >= 3:
            cut = 1 if rng is None else rng.randrange(1, len(ms) - 1)
            obj = t.Union[(*ms[:cut], t.Union[tuple(ms[cut:])])]
        elif s == 'optional' and ty.a[-1].k == 'none' and len(ms) >= 2:
            inner = ms[0] if len(ms) == 2 else t.Union[tuple(ms[:-1])]
            obj = t.Optional[inner]
        if obj is None or len(t.get_args(obj)) != len(ms):
            obj = t.Union[tuple(ms)]
        return obj
    if k == 'lit':
        return t.Literal[tuple(ty.x['vals'])]
    if k == 'cond':
        from .conds import build_cond
        inner = sub(ty.a[0])
        conds = tuple(build_cond(c) for c in ty.x['conds'])
        if ty.x.get('stacked') and len(conds) > 1:
            obj = t.Annotated[inner, conds[0]]
            for c in conds[1:]:
                obj = t.Annotated[obj, c]
            return obj
        return t.Annotated[(inner, *conds)]
    if k == 'tagged':
        from pane.annotations import Tagged
        ms = tuple(sub(c) for c in ty.a)
        ext = ty.x['external']
        return t.Annotated[t.Union[ms], Tagged(ty.x['tag'], list(ext) if ty.x.get('ext_as_list') else ext)]
    if k == 'ndarray':
        import numpy
        dt = ty.x.get('dtype')
        if dt is None:
            return numpy.ndarray
        np_t = {'int': numpy.int64, 'float': numpy.float64, 'complex': numpy.complex128, 'bool': numpy.bool_,
                'str': numpy.str_}[dt]
        return numpy.ndarray[t.Any, numpy.dtype[np_t]]
    if k == 'vol':
        return env.m_types.ValueOrList[sub(ty.a[0])]
    if k == 'range':
        return env.m_types.Range[int if ty.x['num'] == 'int' else float]
    raise ValueError(f"unknown kind {k}")


_POST_INIT_RAISERS = (
    lambda: ValueError("post_init says no"), lambda: TypeError("post_init type"), lambda: KeyError('post_init key'),
    lambda: env.ParseInterrupt(), lambda: env.ConvertError(env.m_errors.WrongTypeError('nothing', None)),
    lambda: AttributeError('post_init attr'), lambda: ZeroDivisionError('post_init zero'), lambda: AssertionError(),
    lambda: ValueError("two complaints:\n - the first one\n - the second one"),
)


def build_class(spec: ClassM, base=None, extra_ns=None):
    """Create the pane dataclass described by `spec` with type(name, bases, ns, **options)."""
    ns = {'__module__': __name__, '__qualname__': spec.name}
    ann = {}
    for f in spec.fields:
        if f.name == '_KW_ONLY_':
            ann['_'] = env.KW_ONLY
            continue
        ann[f.name] = build(f.ty, None, lit_ok=False)
        kwargs = {}
        for key in ('aliases', 'in_names', 'rename', 'out_name'):
            if getattr(f, key) is not None:
                kwargs[key] = getattr(f, key)
                if isinstance(kwargs[key], tuple) and key in ('aliases', 'in_names') and (len(f.name) + len(spec.name)) % 2 == 0:
                    kwargs[key] = list(kwargs[key])     # any sequence of names is accepted
        if f.kw_only: kwargs['kw_only'] = True
        if not f.init: kwargs['init'] = False
        if f.exclude: kwargs['exclude'] = True
        if not f.compare: kwargs['compare'] = False
        if f.hash is not None: kwargs['hash'] = f.hash
        if not f.repr: kwargs['repr'] = False
        if f.converter is not None: kwargs['converter'] = f.converter
        if f.dflt == 'fac':
            kwargs['default_factory'] = f.dval
            ns[f.name] = env.pfield(**kwargs)
        elif f.dflt == 'val':
            if kwargs:
                kwargs['default'] = f.dval
                ns[f.name] = env.pfield(**kwargs)
            else:
                ns[f.name] = f.dval
        elif kwargs:
            ns[f.name] = env.pfield(**kwargs)
    ns['__annotations__'] = ann
    log = []
    pi = spec.post_init
    if pi is not None:
        def __post_init__(self, _pi=pi, _log=log, _serial_no=spec.serial):
            _log.append(id(self))
            if _pi == 'ok':
                # a hook that looks at its own instance the way user code does: which fields were given, all fields
                self.dict(set_only=True)
                self.dict()
            if _pi == 'raise':
                raise _POST_INIT_RAISERS[_serial_no % len(_POST_INIT_RAISERS)]()
            if isinstance(_pi, tuple) and _pi[0] == 'raise_if':
                if getattr(self, _pi[1], None) == _pi[2]:
                    raise KeyError(f"bad {_pi[1]}")
            if isinstance(_pi, tuple) and _pi[0] == 'raise_if_set':
                # "this one is derived: do not give it" - decided by the record of explicitly set fields
                if _pi[1] in self.dict(set_only=True):
                    raise ValueError(f"{_pi[1]} must not be given")
        ns['__post_init__'] = __post_init__
    if extra_ns:
        ns.update(extra_ns)
    opts = dict(spec.opts)
    if isinstance(opts.get('in_format'), tuple) and sum(map(ord, spec.name)) % 3 == 0:
        opts['in_format'] = list(opts['in_format'])      # the documentation writes the layouts as a list as often as a tuple
    cls = type(spec.name, (base or env.PaneBase,), ns, **opts)
    cls._pv_spec = spec
    cls._pv_post_init_log = log
    return cls


def _flat_union_args(obj):
    out = []
    for a in t.get_args(obj):
        if t.get_origin(a) is t.Union:
            out.extend(_flat_union_args(a))
        else:
            out.append(a)
    return out


def conforms(ty: Ty, obj, depth=0) -> bool:
    """
    Does the Python type object really have the member order of the AST?  typing caches parametrised aliases by
    *equality* of their arguments and Union[int, float] == Union[float, int], so building List[Union[float, int]]
    may hand back an older List[Union[int, float]].  Such objects are not the type the AST describes; cases
    using them are skipped (counted), never judged.
    """
    if depth > 12:
        return True
    k = ty.k
    try:
        if k == 'lit':
            # Literal[0, False] == Literal[False, 0] for typing's alias cache, but the order shows in messages and results
            args = t.get_args(obj)
            return len(args) == len(ty.x['vals']) and all(type(a) is type(b) and a == b for a, b in zip(args, ty.x['vals']))
        if k == 'union':
            if t.get_origin(obj) is not t.Union:
                return False
            args = _flat_union_args(obj)
            if len(args) != len(ty.a):
                return False
            for m, a in zip(ty.a, args):
                if m.k == 'lit':
                    if not conforms(m, a, depth + 1):
                        return False
                elif m.k in ('int', 'float', 'complex', 'bool', 'str', 'bytes', 'bytearray', 'none', 'decimal', 'fraction', 'date', 'time',
                             'datetime', 'any', 'path', 'sub', 'enum', 'dc', 'cc'):
                    if build(m) is not a and build(m) != a:
                        return False
                elif not conforms(m, a, depth + 1):
                    return False
            return True
        if k in ('list', 'seq', 'deque', 'set', 'vol', 'counter'):
            if ty.x.get('bare'):
                return True
            args = t.get_args(obj)
            if k == 'vol' and args:
                # ValueOrList[T] builds typing.List[T] itself: typing's alias cache may hand it an equal-but-reordered alias
                # made earlier in this process (List[Literal[0, False]] for List[Literal[False, 0]])
                try:
                    inner_list = t.List[args[0]]
                except Exception:
                    return False
                if not conforms(Ty('list', [ty.a[0]]), inner_list, depth + 1):
                    return False
            return bool(args) and conforms(ty.a[0], args[0], depth + 1)
        if k == 'tup':
            args = obj if isinstance(obj, tuple) else t.get_args(obj)
            if args == ((),):
                args = ()
            return len(args) == len(ty.a) and all(conforms(c, a, depth + 1) for c, a in zip(ty.a, args))
        if k == 'dict':
            if ty.x.get('bare'):
                return True
            args = t.get_args(obj)
            return len(args) == 2 and conforms(ty.a[0], args[0], depth + 1) and conforms(ty.a[1], args[1], depth + 1)
        if k == 'struct':
            return all(conforms(c, obj[n], depth + 1) for n, c in zip(ty.x['keys'], ty.a))
        if k == 'cond':
            return conforms(ty.a[0], t.get_args(obj)[0], depth + 1)
        if k == 'tagged':
            return all(conforms(m, a, depth + 1) for m, a in zip(ty.a, _flat_union_args(t.get_args(obj)[0])))
        if k == 'dc':
            info = getattr(obj, '__pane_info__', None)
            if info is None:
                return True
            by_name = {f.name: f.type for f in info.fields}
            return all(conforms(f.ty, by_name[f.name], depth + 1) for f in ty.x['spec'].fields if f.name in by_name)
    except Exception:
        return False
    return True
