"""
Hand-written target types that the random grammar does not produce, shared by several checks:
user subclasses of builtin containers whose constructor validates, and dataclasses that INHERIT a validating hook.
Each entry: (description, python type, [values]) - values mix members, element-wise failures and constructor / hook failures.
"""
import collections.abc
import typing as t

from . import env


class Ascending(t.List[float]):
    def __init__(self, it=()):
        items = list(it)
        if any(b < a for a, b in zip(items, items[1:])):
            raise ValueError("not ascending")
        super().__init__(items)


class SmallDict(t.Dict[str, int]):
    def __init__(self, *a, **kw):
        super().__init__(*a, **kw)
        if len(self) > 2:
            raise OverflowError("at most two entries")


class NonEmptyTuple(t.Tuple[int, ...]):
    def __new__(cls, it=()):
        items = tuple(it)
        if not items:
            raise LookupError("empty")
        return super().__new__(cls, items)


class PickySet(t.Set[int]):
    def __init__(self, it=()):
        items = list(it)
        if 13 in items:
            raise RuntimeError("unlucky")
        super().__init__(items)


class HookError(Exception):
    pass


_made = {}


def hook_classes():
    """Base classes with a validating __post_init__, and subclasses that only inherit it (plain, generic-bound, with extra fields)."""
    if _made:
        return _made
    T = t.TypeVar('T')

    class Checked(env.PaneBase, in_format=('struct', 'tuple')):
        lo: int
        hi: int = 10

        def __post_init__(self):
            if self.lo > self.hi:
                raise HookError(f"lo {self.lo} > hi {self.hi}")

    class Named(Checked):
        name: str = 'n'

    class JustInherits(Checked):
        pass

    import types as _types
    GBase = _types.new_class('GBase', (env.PaneBase, t.Generic[T]), {}, lambda ns: ns.update({
        '__annotations__': {'lo': T, 'hi': T}, '__module__': __name__,
        '__post_init__': lambda self: (_ for _ in ()).throw(FileNotFoundError('lo > hi')) if self.lo > self.hi else None}))

    class IntPair(GBase[int]):
        pass

    class KeyErr(env.PaneBase):
        a: int = 0

        def __post_init__(self):
            if self.a == 7:
                raise KeyError('seven')

    class KeyErrSub(KeyErr):
        b: int = 0

    _made.update(Checked=Checked, Named=Named, JustInherits=JustInherits, IntPair=IntPair, GInt=GBase[int], KeyErr=KeyErr, KeyErrSub=KeyErrSub)
    return _made


def container_subclass_cases():
    base = [
        ('Ascending(List[float])', Ascending, [[1, 2.5, 3], [], [3, 1], [1, 'x'], 'ab', None, [2, 2], {'a': 1}]),
        ('SmallDict(Dict[str, int])', SmallDict, [{'a': 1}, {}, {'a': 1, 'b': 2, 'c': 3}, {'a': 'x'}, {1: 1}, [1], None]),
        ('NonEmptyTuple(Tuple[int, ...])', NonEmptyTuple, [[1, 2], [], (3,), ['x'], 5]),
        ('PickySet(Set[int])', PickySet, [[1, 2], [13], [1, 13, 2], [], ['x'], [[1]], None]),
    ]
    out = []
    for d, T, vals in base:
        out.append((d, T, vals))
        out.append((f"List[{d}]", t.List[T], [[v] for v in vals] + [[vals[0], vals[2]]]))
        out.append((f"Optional[{d}]", t.Optional[T], vals))
        out.append((f"Dict[str, {d}]", t.Dict[str, T], [{'k': v} for v in vals]))
        cls = type('Holds' + T.__name__, (env.PaneBase,), {'__annotations__': {'f': T, 'n': int}, 'n': 0, '__module__': __name__})
        out.append((f"class with field {d}", cls, [{'f': v} for v in vals] + [{'f': vals[0], 'n': 'x'}]))
    # named tuples (typing.NamedTuple, generic, and collections.namedtuple): read field by field (D61)
    import collections as _c

    class NTPoint(t.NamedTuple):
        x: int
        y: int = 0
    NT_T, NT_U = t.TypeVar('NT_T'), t.TypeVar('NT_U')

    class NTPair(t.NamedTuple, t.Generic[NT_T, NT_U]):
        a: NT_T
        b: NT_U
    NTOld = _c.namedtuple('NTOld', 'p q')
    nt_vals = [[1, 2], [1], ['a', 2], (3, 4), [1, 2, 3], [], 'ab', {'x': 1, 'y': 2}, None, [1.5, 2], [True, 2]]
    out.append(('NamedTuple Point(x: int, y: int = 0)', NTPoint, nt_vals))
    out.append(('List[NamedTuple]', t.List[NTPoint], [[v] for v in nt_vals[:6]] + [[[1, 2], [3, 4]]]))
    out.append(('generic NamedTuple Pair[int, str]', NTPair[int, str], [[1, 's'], ['s', 1], [1], [1, 's', 2], [None, 's']]))
    out.append(('Union[NamedTuple, List[Any]]', t.Union[NTPoint, t.List[t.Any]], [[1, 2], ['a', 'b'], [1], 5]))
    out.append(('collections.namedtuple', NTOld, [[1, 'x'], [1], [1, 2, 3], 'pq']))
    return out


def inherited_hook_cases():
    H = hook_classes()
    good, bad = {'lo': 1, 'hi': 5}, {'lo': 9, 'hi': 5}
    out = []
    for name in ('Checked', 'Named', 'JustInherits', 'IntPair', 'GInt'):
        C = H[name]
        vals = [good, bad, {'lo': 'x', 'hi': 5}, {'lo': 11}, [1, 5], [9, 5], {}, None, {'lo': 1, 'hi': 5, 'zz': 0}]
        if name in ('IntPair', 'GInt'):
            vals = [v for v in vals if not isinstance(v, list)] + [{'lo': 5, 'hi': 1}]
        out.append((name, C, vals))
        out.append((f"List[{name}]", t.List[C], [[good], [bad], [good, bad], [bad, 'x']]))
        out.append((f"Union[{name}, int]", t.Union[C, int], [good, bad, 3]))
        out.append((f"Dict[str, {name}]", t.Dict[str, C], [{'k': good}, {'k': bad}]))
    for name in ('KeyErr', 'KeyErrSub'):
        C = H[name]
        out.append((name, C, [{'a': 1}, {'a': 7}, {}, {'a': 'x'}]))
        out.append((f"Optional[{name}]", t.Optional[C], [{'a': 7}, None, {'a': 2}]))
    return out


def generic_nesting_case(rng):
    """
    Fresh generic dataclasses subscripted with arguments that are themselves subscripted generics - Outer[List[Inner[int]]] beside
    Outer[List[Inner[str]]], Envelope[Ok[int]] beside Envelope[Ok[str]], two same-named enums as arguments - in a random order of first use.
    Returns [(description, type, value, must_accept)].
    """
    import enum
    import types as _types
    T = t.TypeVar('T')
    U = t.TypeVar('U')
    n = next(_counter)
    Inner = _types.new_class(f"Inner", (env.PaneBase, t.Generic[T]), {}, lambda ns: ns.update({'__annotations__': {'v': T}, '__module__': __name__}))
    Outer = _types.new_class(f"Outer", (env.PaneBase, t.Generic[U]), {}, lambda ns: ns.update({'__annotations__': {'items': U}, '__module__': __name__}))
    shape = rng.choice(('list', 'direct', 'dict', 'optional', 'enum'))
    if shape == 'enum':
        def mk(vals):
            return enum.Enum('Level', vals)
        a1, a2 = mk({'LOW': 1, 'HIGH': 2}), mk({'LOW': 'low', 'HIGH': 'high'})
        d1, d2 = 1, 'low'
    else:
        a1, a2 = Inner[int], Inner[str]
        d1, d2 = {'v': 1}, {'v': 's'}
    wrap = {'list': lambda a: t.List[a], 'direct': lambda a: a, 'dict': lambda a: t.Dict[str, a], 'optional': lambda a: t.Optional[a], 'enum': lambda a: t.List[a]}[shape]
    put = {'list': lambda d: [d], 'direct': lambda d: d, 'dict': lambda d: {'k': d}, 'optional': lambda d: d, 'enum': lambda d: [d]}[shape]
    specs = [(a1, d1, d2), (a2, d2, d1)]
    if rng.random() < 0.5:
        specs.reverse()
    rows = []
    for arg, good, bad in specs:
        TT = Outer[wrap(arg)]
        rows.append((f"Outer[{shape} of {getattr(arg, '__name__', arg)}] <- its own data", TT, {'items': put(good)}, True))
        rows.append((f"Outer[{shape} of {getattr(arg, '__name__', arg)}] <- the other argument's data", TT, {'items': put(bad)}, False))
    return rows


import itertools as _it
_counter = _it.count()


class Port:
    """A type hooked in through the `_converter` protocol with a stock UnionConverter whose `constructor=` validates."""
    def __init__(self, v):
        n = int(v)
        if not 0 <= n <= 65535:
            raise ValueError(f"not a port: {v!r}")
        self.n = n

    def __eq__(self, o): return type(o) is Port and o.n == self.n
    def __hash__(self): return hash(('port', self.n))
    def __repr__(self): return f"Port({self.n})"

    @classmethod
    def _converter(cls, *args, handlers):
        return env.m_converters.UnionConverter((int, str), handlers=handlers, constructor=lambda v, i: cls(v))


class Version:
    """`_converter` protocol with a stock DelegateConverter-like struct: an UNHASHABLE typed image (for mapping keys)."""
    def __init__(self, parts): self.parts = list(parts)
    def __eq__(self, o): return type(o) is Version and o.parts == self.parts
    __hash__ = None
    def __repr__(self): return f"Version({self.parts})"

    @classmethod
    def _converter(cls, *args, handlers):
        return env.m_converters.UnionConverter((t.List[int],), handlers=handlers, constructor=lambda v, i: cls(v))


class Timestamp:
    """Union with a constructor that refuses what an EARLIER member made of the value, so that a LATER member has to take the value
    as it was given (a naive datetime string is kept as text): the later member must see the input, not the earlier member's result."""
    def __init__(self, value): self.value = value
    def __eq__(self, o): return type(o) is Timestamp and o.value == self.value
    def __hash__(self): return hash(('ts', self.value))
    def __repr__(self): return f"Timestamp({self.value!r})"

    @staticmethod
    def _build(val, i):
        if i == 0 and val.tzinfo is None:
            raise ValueError("naive datetimes are not accepted as datetimes")
        return Timestamp(val)

    @classmethod
    def _converter(cls, *args, handlers):
        import datetime as _dt
        return env.m_converters.UnionConverter((_dt.datetime, str), handlers=handlers, constructor=cls._build)


class Amount:
    """float first, then int, the constructor refusing inexact floats: 2**53 + 1 must arrive at the int member as an int."""
    def __init__(self, v): self.v = v
    def __eq__(self, o): return type(o) is Amount and type(o.v) is type(self.v) and o.v == self.v
    def __hash__(self): return hash(('amt', self.v))
    def __repr__(self): return f"Amount({self.v!r})"

    @staticmethod
    def _build(val, i):
        if i == 0 and val != int(val):
            raise ValueError("whole amounts only")
        if i == 0 and abs(val) >= 2 ** 53:
            raise ValueError("too big to be exact as a float")
        return Amount(val)

    @classmethod
    def _converter(cls, *args, handlers):
        return env.m_converters.UnionConverter((float, int), handlers=handlers, constructor=cls._build)


def protocol_cases():
    out = []
    for d, T, vals in (('Port', Port, [80, '443', 70000, 'http', -1, None, 2.5, [80]]),
                       ('Timestamp', Timestamp, ['2020-01-01T12:00:00', '2020-01-01T12:00:00+00:00', 'yesterday', 5, None, '2020-01-01']),
                       ('Amount', Amount, [3, 2 ** 53 + 1, 2.5, 4.0, 'x', True, 10 ** 400, -(2 ** 60)]),
                       ('Version', Version, [[1, 2], [], ['x'], 'v1', None])):
        out.append((d, T, vals))
        out.append((f"List[{d}]", t.List[T], [[v] for v in vals] + [[vals[0], vals[2]]]))
        out.append((f"Optional[{d}]", t.Optional[T], vals))
        out.append((f"Union[{d}, bool]", t.Union[T, bool], vals + [True]))
        cls = type('Has' + d, (env.PaneBase,), {'__annotations__': {'f': T, 'n': int}, 'n': 0, '__module__': __name__})
        out.append((f"class with field {d}", cls, [{'f': v} for v in vals]))
    # typed images that cannot be hashed, as mapping keys and set elements
    out.append(('Dict[Version, int]', t.Dict[Version, int], [{(1, 2): 1}, {}, {'x': 1}]))
    out.append(('Set[Version]', t.Set[Version], [[[1, 2]], []]))
    out.append(('Dict[List[int], int]', t.Dict[t.List[int], int], [{(1, 2): 1}, {}]))
    return out


def attribute_tagged_cases():
    """Tagged unions whose variants carry the tag as a PLAIN class attribute (not a field): the variant never sees the tag as data."""
    from pane.annotations import Tagged

    class VA(env.PaneBase):
        x: int
        kind = 'a'

    class VB(env.PaneBase, allow_extra=True):
        y: str = 's'
        kind = 'b'

    out = []
    for ext in (False, True, ('t', 'c')):
        U = t.Annotated[t.Union[VA, VB], Tagged('kind', ext)]

        def lay(tag, body, ext=ext):
            if ext is False: return {'kind': tag, **body}
            if ext is True: return {tag: body}
            return {ext[0]: tag, ext[1]: body}
        vals = [lay('a', {'x': 1}), lay('a', {'x': 'bad'}), lay('a', {}), lay('b', {}), lay('b', {'y': 't', 'more': 1}), lay('c', {'x': 1}), lay('a', {'x': 1, 'zz': 2}), {}, 5]
        out.append((f"attribute-tagged union, layout {ext}", U, vals))
        out.append((f"List[attribute-tagged union, layout {ext}]", t.List[U], [[v] for v in vals[:5]] + [[vals[0], vals[3]]]))
    return out


# ---- tuple layout around fields that take no position ---------------------------------------------------------------------------
def tuple_layout_cases():
    """Dataclasses read from sequences whose declaration order puts a field WITHOUT a position (init=False) before positional ones, and
    keyword-only fields between them; rows where the value at a later position happens to be valid for the skipped field's type."""
    class TA(env.PaneBase, in_format=('tuple', 'struct')):
        channel: int
        scaled: int = env.pfield(init=False, default=0)
        unit: str = 'u'

    class TB(env.PaneBase, in_format=('tuple',)):
        name: str
        derived: str = env.pfield(init=False, default='d')
        count: int = 0
        ratio: float = 1.0

    class TC(env.PaneBase, in_format=('tuple', 'struct')):
        first: int
        skip_a: float = env.pfield(init=False, default=0.0)
        skip_b: t.List[int] = env.pfield(init=False, default_factory=list)
        second: t.List[int] = env.pfield(default_factory=list)
        kw: str = env.pfield(default='k', kw_only=True)

    rows = [
        ('init=False int before a str', TA, [[3, 'v'], [3, 5], [3], ['x', 'v'], [3, 'v', 'more'], [], [3, None], [True, 'v'], [3, 5.0]]),
        ('init=False str before int, float', TB, [['n', 1, 2.5], ['n', 'x'], ['n', 1, 'y'], ['n'], ['n', 2.5], ['n', 'x', 2.5], [1, 1, 1.0], ['n', 1, 2.5, 3]]),
        ('two init=False fields, then a list, then keyword-only', TC, [[1, [2]], [1, 2.5], [1, [2], 'k'], [1], [1, ['a']], [1.5, [2]], [1, [2.5]], [1, []]]),
    ]
    out = []
    for label, T, vals in rows:
        out.append((label, T, vals))
        out.append(('List of: ' + label, t.List[T], [[v] for v in vals] + [[vals[0], vals[1]]]))
        out.append(('Optional: ' + label, t.Optional[T], vals[:4] + [None]))
    return out


# ---- refused values that cannot be printed ------------------------------------------------------------------------------------
def unprintable_cases():
    """[(label, T, value)] - interchange data holding an int that str() / repr() refuse to print (more digits than
    sys.get_int_max_str_digits()): every one is REFUSED by T, and naming it in the error may not fail (found by a sub-agent of round 8;
    fix D41). Kept out of the general value pools: the harness's own witnesses could not print it either."""
    import sys as _sys
    B = 10 ** (max(_sys.get_int_max_str_digits(), 640) + 700) if hasattr(_sys, 'get_int_max_str_digits') else 10 ** 5000

    class UK(env.PaneBase):
        a: int = 0

    class UT(env.PaneBase, in_format=('tuple', 'struct')):
        a: str
        b: int = 0

    ann = env.m_annotations
    pos = t.Annotated[int, ann.Condition(lambda v: v > 0, 'pos')]
    return [
        ('key of Dict[int, int]', t.Dict[int, int], {B: 'x'}), ('value of Dict[int, str]', t.Dict[int, str], {1: B}), ('str', str, B),
        ('element of List[str]', t.List[str], [1, B]), ('unknown key of a dataclass', UK, {B: 1}), ('unknown key beside a known one', UK, {'a': 1, B: 2}),
        ('Optional[str]', t.Optional[str], B), ('slot of Tuple[int, str]', t.Tuple[int, str], (1, B)), ('over-long tuple', t.Tuple[int], [B, B]),
        ('Literal', t.Literal['a'], B), ('struct literal', {'a': str}, {'a': B}), ('length condition', t.Annotated[str, ann.len_range(max=3)], B),
        ('failed condition', pos, -B), ('Dict[str, dataclass]', t.Dict[str, UK], {'t': B}), ('float (overflow)', float, B), ('complex (overflow)', complex, B),
        ('dataclass', UK, B), ('dataclass from a sequence', UK, [B]), ('tuple-layout dataclass', UT, [B, 1]), ('key of Dict[str, int]', t.Dict[str, int], {B: 1}),
        ('element of Set[str]', t.Set[str], [B]), ('nested list', t.List[t.List[str]], [[B]]), ('date', __import__('datetime').date, B),
        ('union of containers', t.Union[t.List[int], t.Dict[str, int]], B), ('bool', bool, B), ('key and value', t.Dict[str, str], {B: B}),
        # one level down: the renderer fuses chains of single-child nodes into one dotted path (D62)
        ('key of an inner Dict[int, int]', t.Dict[str, t.Dict[int, int]], {'a': {B: 'x'}}), ('key of a Dict[int, int] in a list', t.List[t.Dict[int, int]], [{B: 'x'}]),
        ('unknown key of a nested dataclass', type('UO', (env.PaneBase,), {'__annotations__': {'inner': UK}, '__module__': __name__}), {'inner': {B: 1, 'zz': 2}}),
        ('unknown key two levels down', t.Dict[str, t.List[UK]], {'k': [{B: 1}]}), ('key of Dict[int, dataclass]', t.Dict[str, t.Dict[int, UK]], {'k': {B: {'a': 'x'}}}),
        ('dataclass field holding Dict[int, int]', type('UD', (env.PaneBase,), {'__annotations__': {'d': t.Dict[int, int]}, '__module__': __name__}), {'d': {B: 'x'}}),
    ]


# ---- mappings whose keys cannot be hashed -------------------------------------------------------------------------------------------
class Pairs(collections.abc.Mapping):
    """A Mapping kept as a list of pairs: its keys need not be hashable."""
    def __init__(self, pairs): self._p = list(pairs)

    def __getitem__(self, k):
        for kk, v in self._p:
            if kk == k:
                return v
        raise KeyError(k)

    def __iter__(self): return (k for k, _ in self._p)
    def __len__(self): return len(self._p)
    def __repr__(self): return f"Pairs({self._p!r})"


def unhashable_key_cases():
    """[(label, T, values)] - legal Mapping carriers with an unhashable key, with and without the keys the type looks for (D58)."""
    from pane.annotations import Tagged

    class UP(env.PaneBase):
        x: int = 0

    class UPX(env.PaneBase, allow_extra=True):
        x: int = 0

    class UV1(env.PaneBase):
        kind: t.Literal['a'] = 'a'
        x: int = 0

    class UV2(env.PaneBase, allow_extra=True):
        kind: t.Literal['b'] = 'b'
    bad = lambda *more: Pairs([*more, ([1, 2], 3)])
    out = [('dataclass', UP, [bad(), bad(('x', 1)), Pairs([('x', 1)]), bad(('x', 'no'))]), ('allow_extra dataclass', UPX, [bad(), bad(('x', 1)), bad(('x', 'no'))]),
           ('struct literal', {'a': int}, [bad(('a', 1)), bad(), Pairs([('a', 1)])]), ('Dict[str, int]', t.Dict[str, int], [bad(), bad(('k', 1))]),
           ('Dict[Any, int]', t.Dict[t.Any, int], [bad()]), ('bare dict', dict, [bad()])]
    for ext in (False, True, ('t', 'c')):
        U = t.Annotated[t.Union[UV1, UV2], Tagged('kind', external=ext)]
        if ext is False:
            vals = [bad(('kind', 'a')), bad(('kind', 'b')), bad(), bad(('kind', 'zz')), Pairs([('kind', 'a'), ('x', 2)]), Pairs([(['u'], 1), ('kind', 'a')])]
        elif ext is True:
            vals = [Pairs([('a', bad())]), Pairs([(['u'], {'x': 1})]), Pairs([('b', bad())])]
        else:
            vals = [Pairs([('t', 'a'), ('c', bad())]), bad(('t', 'a'), ('c', {})), Pairs([('t', 'b'), ('c', bad())])]
        out.append((f"tagged union, layout {ext}", U, vals))
        out.append((f"List[tagged union, layout {ext}]", t.List[U], [[v] for v in vals]))
    return out


def equal_value_sequences(rng):
    """
    Round 11 (history-dependent breaks): ONE conditioned type object used repeatedly in one process with values that are EQUAL
    (and hash alike) but of different kinds, or with the same value while the predicate's answer changes with outside state.
    Returns a list of (name, type, steps); a step is ('value', v, expected) with expected in {'accept', 'reject', 'raises'}
    decided here by applying the plain predicate to the value (the union hands each of these values through unchanged), or
    ('do', callable) which changes the outside state. Every call builds fresh Condition objects, so fresh converters.
    """
    Cond = env.m_annotations.Condition
    out = []

    def steps_for(pred, values):
        res = []
        for v in values:
            try:
                e = 'accept' if pred(v) else 'reject'
            except Exception:
                e = 'raises'
            res.append(('value', v, e))
        return res

    for name, inner, pred, values in (
            ('is-int', t.Union[int, float], lambda v: isinstance(v, int), [2.0, 2, 3, 3.0, 0, 0.0, -0.0]),
            ('bit-length', t.Union[int, float], lambda v: v.bit_length() <= 8, [300.0, 300, 200, 200.0, 7, 7.0]),
            ('not-true', t.Union[bool, int], lambda v: v is not True, [True, 1, 0, False]),
            ('real-attr', t.Union[int, float, complex], lambda v: v.imag == 0 and not isinstance(v, complex), [5, 5.0, 5 + 0j, 6 + 0j, 6])):
        vals = list(values) * 2
        rng.shuffle(vals)
        out.append((name, t.Annotated[inner, Cond(pred, name)], steps_for(pred, vals)))
    known = set()
    pred = lambda s: s in known
    seq = []
    for word in ('b', 'c'):
        seq += [('value', word, 'reject'), ('do', lambda w=word: known.add(w)), ('value', word, 'accept'), ('value', word, 'accept'),
                ('do', lambda w=word: known.discard(w)), ('value', word, 'reject')]
    out.append(('outside-state', t.Annotated[str, Cond(pred, 'known')], seq))
    return out
