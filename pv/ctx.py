"""Per-shard context: RNG derivation, counters, distinct-case accounting, violations."""
import collections
import hashlib
import random
import traceback
import signal
import contextlib

MAX_VIOL_PER_SHARD = 40
MAX_SAMPLES = 4


def stable_hash(key) -> int:
    return int.from_bytes(hashlib.blake2b(repr(key).encode('utf-8', 'replace'), digest_size=6).digest(), 'big')


def short(obj, n=300) -> str:
    try:
        s = repr(obj)
    except Exception as e:  # repr of hostile objects
        s = f"<unreprable {type(obj).__name__}: {type(e).__name__}>"
    return s if len(s) <= n else s[:n] + f"...(+{len(s) - n})"


class CaseTimeout(BaseException):
    """A single case exceeded its wall-clock allowance: inconclusive for that case, never a verdict."""


def _on_alarm(signum, frame):
    raise CaseTimeout()


class Ctx:
    @contextlib.contextmanager
    def deadline(self, seconds, sub='?', case=-1):
        """Generous per-case watchdog (SIGALRM). Firing is counted and reported, not judged."""
        old = signal.signal(signal.SIGALRM, _on_alarm)
        signal.setitimer(signal.ITIMER_REAL, seconds)
        try:
            yield
        except CaseTimeout:
            self.count('case_timeouts')
            self.mark('case_timeouts', f"{sub}#{case}")
        finally:
            signal.setitimer(signal.ITIMER_REAL, 0)
            signal.signal(signal.SIGALRM, old)

    def __init__(self, prop, tier, seed, shard, nshards, budget, replay=None):
        self.prop = prop
        self.tier = tier
        self.seed = seed
        self.shard = shard
        self.nshards = nshards
        self.budget = budget
        self.replay = replay          # None or {'sub':..., 'case':...}
        self.evaluations = 0
        self.distinct = set()
        self.samples = []
        self.violations = []
        self.viol_counts = collections.Counter()
        self.counters = collections.Counter()
        self.sets = collections.defaultdict(set)   # named sets of small strings (merged by union)
        self.inconclusive = []
        self.exhaustive = {}
        self.replay_out = []

    # ---- randomness -------------------------------------------------------------------
    def rng(self, *parts) -> random.Random:
        return random.Random(f"{self.seed}/{self.shard}/" + "/".join(map(str, parts)))

    def want(self, sub, case) -> bool:
        """In replay mode only the recorded case is executed."""
        if self.replay is None:
            return True
        return self.replay.get('sub') == sub and self.replay.get('case') == case

    # ---- accounting -------------------------------------------------------------------
    def case(self, key=None, nontrivial=True, sample=None):
        self.evaluations += 1
        if key is not None and nontrivial:
            self.distinct.add(stable_hash(key))
        if sample is not None and len(self.samples) < MAX_SAMPLES:
            self.samples.append(sample)

    def count(self, name, n=1):
        self.counters[name] += n

    def mark(self, setname, item):
        self.sets[setname].add(str(item))

    def note_inconclusive(self, reason):
        if reason not in self.inconclusive:
            self.inconclusive.append(reason)

    def violation(self, oracle, sub, case, witness, mech=None, detail=None):
        """
        oracle: short name of the oracle that was contradicted
        sub/case: replay coordinates (sub-check name, case index)
        witness: dict of human-readable strings (type, value, observed, expected)
        mech: mechanism id computed by the property's classifier over the (minimised) witness, or None
        """
        sig = (oracle, mech)
        self.viol_counts[f"{oracle}|{mech}"] += 1
        if self.replay is not None:
            self.replay_out.append({'oracle': oracle, 'mech': mech, 'witness': witness, 'detail': detail})
        if sum(1 for v in self.violations if (v['oracle'], v['mech']) == sig) >= 3:
            return
        if len(self.violations) >= MAX_VIOL_PER_SHARD:
            return
        self.violations.append({
            'oracle': oracle, 'mech': mech, 'sub': sub, 'case': case,
            'shard': self.shard, 'nshards': self.nshards,
            'witness': {k: (v if isinstance(v, (int, float, bool, type(None), list, dict)) else str(v)) for k, v in witness.items()},
            'detail': detail,
        })

    def crash(self, sub, case, exc):
        """The harness itself failed on a case: never a verdict, recorded as inconclusive."""
        self.count('harness_errors')
        tb = ''.join(traceback.format_exception(type(exc), exc, exc.__traceback__))[-1500:]
        self.note_inconclusive(f"harness error in {sub}#{case}: {type(exc).__name__}: {exc}")
        self.sets['harness_tracebacks'].add(tb)

    def report(self):
        return {
            'prop': self.prop, 'tier': self.tier, 'seed': self.seed, 'shard': self.shard,
            'evaluations': self.evaluations,
            'distinct': sorted(self.distinct),
            'samples': self.samples,
            'violations': self.violations,
            'viol_counts': dict(self.viol_counts),
            'counters': dict(self.counters),
            'sets': {k: sorted(v)[:3000] for k, v in self.sets.items()},
            'inconclusive': self.inconclusive,
            'exhaustive': self.exhaustive,
            'replay_out': self.replay_out,
        }
