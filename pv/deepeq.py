"""
deep_typed_eq: recursive comparison of *exact type* and value at every level.

`Inst` is the reference model's stand-in for a pane dataclass instance (the model never
calls pane's constructors): class object + expected per-field values (+ optional set-field record).
"""
import collections
import math
import re
import struct


SKIP_EXCLUDED = False   # C05 compares 'modulo fields the user excluded'


class Inst:
    __slots__ = ('cls', 'fields', 'set_fields')

    def __init__(self, cls, fields, set_fields=None):
        self.cls = cls
        self.fields = fields
        self.set_fields = set_fields

    def __repr__(self):
        inner = ', '.join(f"{k}={v!r}" for k, v in self.fields.items())
        return f"Inst<{self.cls.__name__}>({inner})"

    def __hash__(self):
        # hashability follows the documented dataclass rule table: eq and not frozen => unhashable;
        # no eq => identity; otherwise hash of the field values (TypeError if one is unhashable)
        spec = getattr(self.cls, '_pv_spec', None)
        if spec is not None:
            if spec.opt('eq') and not spec.opt('frozen'):
                raise TypeError(f"unhashable type: {self.cls.__name__}")
            if not spec.opt('eq'):
                return id(self)
        return hash((self.cls, tuple(hash(self.fields[k].product if isinstance(self.fields[k], Factory) else self.fields[k]) for k in sorted(self.fields))))

    def __eq__(self, other):
        # used when the model puts instances into sets / dict keys: Python's own == on the fields (NaN != NaN),
        # which is what a dataclass's generated __eq__ does
        if not isinstance(other, Inst) or self.cls is not other.cls or set(self.fields) != set(other.fields):
            return False
        unwrap = lambda v: v.product if isinstance(v, Factory) else v
        try:
            return all(bool(unwrap(self.fields[k]) == unwrap(other.fields[k])) for k in self.fields)
        except Exception:
            return False


def _h(v):
    try:
        return hash(v)
    except TypeError:
        return 0


class Factory:
    """Model's marker for 'a fresh product of the default factory' (checked by C14, accepted here if equal)."""
    __slots__ = ('product',)

    def __init__(self, product):
        self.product = product


def _is_np(x):
    return type(x).__module__ == 'numpy' and type(x).__name__ == 'ndarray'


def deep_typed_eq(exp, got, path='$'):
    """Return (ok, explanation). `exp` may contain Inst placeholders; `got` is what pane produced."""
    if isinstance(exp, Factory):
        return deep_typed_eq(exp.product, got, path)
    if isinstance(exp, Inst) and isinstance(got, Inst):
        if exp.cls is not got.cls or set(exp.fields) != set(got.fields):
            return False, f"{path}: different model instances"
        for name in exp.fields:
            ok, why = deep_typed_eq(exp.fields[name], got.fields[name], f"{path}.{name}")
            if not ok:
                return ok, why
        return True, ''
    if isinstance(exp, Inst):
        # generic subscripted classes create subclasses; compare through __origin__
        if type(got) is not exp.cls and getattr(type(got), '__origin__', None) is not exp.cls \
                and type(got).__dict__.get('__origin__', type(got)) is not exp.cls.__dict__.get('__origin__', exp.cls):
            return False, f"{path}: expected instance of {exp.cls.__name__}, got {type(got).__name__}"
        for name, ev in exp.fields.items():
            try:
                gv = getattr(got, name)
            except AttributeError:
                return False, f"{path}.{name}: attribute missing"
            ok, why = deep_typed_eq(ev, gv, f"{path}.{name}")
            if not ok:
                return ok, why
        if exp.set_fields is not None:
            gs = getattr(got, '__pane_set__', None)
            if gs != set(exp.set_fields):
                return False, f"{path}: set-field record {gs!r} != {set(exp.set_fields)!r}"
        return True, ''
    if isinstance(got, Inst):
        return deep_typed_eq(got, exp, path)
    te, tg = type(exp), type(got)
    if _is_np(exp) or _is_np(got):
        if not (_is_np(exp) and _is_np(got)):
            return False, f"{path}: ndarray vs {tg.__name__ if _is_np(exp) else te.__name__}"
        if exp.shape != got.shape or exp.dtype.kind != got.dtype.kind:
            return False, f"{path}: array shape/dtype {got.shape}/{got.dtype} != {exp.shape}/{exp.dtype}"
        if exp.dtype.kind == 'O':
            for i, (a, b) in enumerate(zip(exp.ravel().tolist(), got.ravel().tolist())):
                ok, why = deep_typed_eq(a, b, f"{path}[{i}]")
                if not ok:
                    return ok, why
            return True, ''
        import numpy
        same = numpy.array_equal(exp, got, equal_nan=exp.dtype.kind in 'fc')
        return (True, '') if same else (False, f"{path}: array contents differ")
    if te is not tg:
        return False, f"{path}: type {tg.__name__} != expected {te.__name__}"
    if te is float:
        if struct.pack('>d', exp) != struct.pack('>d', got) and not (math.isnan(exp) and math.isnan(got)):
            return False, f"{path}: {got!r} != {exp!r}"
        return True, ''
    if te is complex:
        ok = (deep_typed_eq(exp.real, got.real)[0] and deep_typed_eq(exp.imag, got.imag)[0])
        return (True, '') if ok else (False, f"{path}: {got!r} != {exp!r}")
    if isinstance(exp, re.Pattern):
        ok = exp.pattern == got.pattern and exp.flags == got.flags and type(exp.pattern) is type(got.pattern)
        return (True, '') if ok else (False, f"{path}: pattern {got!r} != {exp!r}")
    if isinstance(exp, (str, bytes, bytearray)):
        return (True, '') if exp == got else (False, f"{path}: {got!r} != {exp!r}")
    if isinstance(exp, collections.abc.Mapping):
        if len(exp) != len(got):
            return False, f"{path}: mapping sizes {len(got)} != {len(exp)}"
        gitems = list(got.items())
        used = set()
        for ek, ev in exp.items():
            hit = None
            for i, (gk, gv) in enumerate(gitems):
                if i in used:
                    continue
                if deep_typed_eq(ek, gk)[0]:
                    hit = i
                    break
            if hit is None:
                return False, f"{path}: key {ek!r} (exactly typed) missing in {got!r}"
            used.add(hit)
            ok, why = deep_typed_eq(ev, gitems[hit][1], f"{path}[{ek!r}]")
            if not ok:
                return ok, why
        if isinstance(exp, collections.OrderedDict):
            for (ek, _), (gk, _) in zip(exp.items(), got.items()):
                if not deep_typed_eq(ek, gk)[0]:
                    return False, f"{path}: key order differs"
        if isinstance(exp, collections.defaultdict) and exp.default_factory is not got.default_factory:
            return False, f"{path}: default_factory differs"
        return True, ''
    if isinstance(exp, (set, frozenset)):
        if len(exp) != len(got):
            return False, f"{path}: set sizes {len(got)} != {len(exp)}"
        rest = list(got)
        for e in exp:
            for i, g in enumerate(rest):
                if deep_typed_eq(e, g)[0]:
                    del rest[i]
                    break
            else:
                return False, f"{path}: element {e!r} (exactly typed) missing in {got!r}"
        return True, ''
    if isinstance(exp, (list, tuple, collections.deque)):
        if len(exp) != len(got):
            return False, f"{path}: lengths {len(got)} != {len(exp)}"
        for i, (a, b) in enumerate(zip(exp, got)):
            ok, why = deep_typed_eq(a, b, f"{path}[{i}]")
            if not ok:
                return ok, why
        return True, ''
    if hasattr(te, '__pane_info__'):
        for f in te.__pane_info__.fields:
            if SKIP_EXCLUDED and f.exclude:
                continue
            ok, why = deep_typed_eq(getattr(exp, f.name, None), getattr(got, f.name, None), f"{path}.{f.name}")
            if not ok:
                return ok, why
        return True, ''
    if te.__name__ == 'ValueOrList' and hasattr(exp, '_is_val'):
        if exp._is_val != got._is_val:
            return False, f"{path}: ValueOrList variant differs"
        return deep_typed_eq(exp._inner, got._inner, path + '._inner')
    try:
        same = exp == got
    except Exception as e:  # hostile __eq__
        return False, f"{path}: comparison raised {type(e).__name__}"
    if same is True or (same is not False and bool(same)):
        return True, ''
    if exp != exp and got != got:  # NaN-like (Decimal('NaN'))
        return True, ''
    return False, f"{path}: {got!r} != {exp!r}"
