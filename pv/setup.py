"""
MANIFEST.setup_cmd: offline preparation. Installs icontract from the local wheelhouse into
/verif/.deps (used by C20's contract monitors; the check re-does this itself when missing).
"""
import os
import subprocess
import sys

ROOT = os.path.dirname(os.path.dirname(os.path.abspath(__file__)))
DEPS = os.path.join(ROOT, '.deps')
WHEELS = '/opt/veriftools/wheels'


def ensure_deps(quiet=True):
    if os.path.isdir(os.path.join(DEPS, 'icontract')):
        return True
    if not os.path.isdir(WHEELS):
        return False
    cmd = ['/venv/bin/pip', 'install', '--no-index', '--find-links', WHEELS, '--target', DEPS, '--quiet', 'icontract']
    p = subprocess.run(cmd, capture_output=True, text=True, env={**os.environ, 'PIP_NO_INDEX': '1'})
    if p.returncode != 0 and not quiet:
        print(p.stdout, p.stderr, file=sys.stderr)
    return p.returncode == 0 and os.path.isdir(os.path.join(DEPS, 'icontract'))


if __name__ == '__main__':
    ok = ensure_deps(quiet=False)
    print("icontract:", "installed" if ok else "NOT installed (C20 will run its contracts with the built-in fallback)")
    sys.exit(0)
