"""
Condition-expression AST: each spec is a dict {'op':..., ...}; `build_cond` makes the pane
Condition, `pred` makes the harness's own plain-Python predicate (written from the docs).
"""
import math


class PredicateBoom(Exception):
    pass


def _user_fns():
    def even(v): return v % 2 == 0
    def small(v): return v < 10
    def boom(v): raise PredicateBoom("predicate exploded")
    def keyerr(v): raise KeyError('k')
    def truthy(v): return bool(v)
    def never(v): return False
    def always(v): return True
    def returns_obj(v): return [] if not v else [v]     # truthiness, not identity
    def first_positive(v): return v[0] > 0              # raises IndexError on an empty sequence
    return {f.__name__: f for f in (even, small, boom, keyerr, truthy, never, always, returns_obj, first_positive)}


USER_FNS = _user_fns()


def name_of(spec):
    op = spec['op']
    if op in ('and', 'or', 'all', 'any'):
        return f"{op}({', '.join(name_of(k) for k in spec['kids'])})"
    if op == 'not':
        return f"not({name_of(spec['kid'])})"
    if op in ('val_range', 'len_range'):
        return f"{op}({spec.get('min')},{spec.get('max')})"
    if op in ('shape', 'broadcastable'):
        return f"{op}{tuple(spec['shape'])}{'L' if spec.get('as_list') else ''}"
    if op == 'user':
        return f"user:{spec['fn']}" + (f"@{spec['label']}" if spec.get('label') else '')
    return op


def with_names(spec):
    spec = dict(spec)
    if 'kids' in spec:
        spec['kids'] = [with_names(k) for k in spec['kids']]
    if 'kid' in spec:
        spec['kid'] = with_names(spec['kid'])
    spec['name'] = name_of(spec)
    return spec


def build_cond(spec):
    from pane import annotations as A
    op = spec['op']
    if op == 'positive': return A.Positive
    if op == 'negative': return A.Negative
    if op == 'nonneg': return A.NonNegative
    if op == 'nonpos': return A.NonPositive
    if op == 'finite': return A.Finite
    if op == 'empty': return A.Empty
    if op == 'nonempty': return A.NonEmpty
    if op == 'val_range':
        kw = {k: spec[k] for k in ('min', 'max') if spec.get(k) is not None}
        return A.val_range(**kw)
    if op == 'len_range':
        kw = {k: spec[k] for k in ('min', 'max') if spec.get(k) is not None}
        return A.len_range(**kw)
    if op == 'shape':
        return A.shape(list(spec['shape']) if spec.get('as_list') else tuple(spec['shape']))
    if op == 'broadcastable':
        return A.broadcastable(list(spec['shape']) if spec.get('as_list') else tuple(spec['shape']))
    if op == 'user':
        return A.Condition(USER_FNS[spec['fn']], name=spec.get('label') or (spec['fn'] if spec.get('named', True) else None))
    if op == 'and':
        c = build_cond(spec['kids'][0])
        for k in spec['kids'][1:]:
            c = c & build_cond(k)
        return c
    if op == 'or':
        c = build_cond(spec['kids'][0])
        for k in spec['kids'][1:]:
            c = c | build_cond(k)
        return c
    if op == 'not':
        return ~build_cond(spec['kid'])
    if op == 'all':
        return A.Condition.all(*[build_cond(k) for k in spec['kids']])
    if op == 'any':
        return A.Condition.any(*[build_cond(k) for k in spec['kids']])
    raise ValueError(op)


def _broadcastable(a, b):
    """numpy-free right-aligned broadcast rule between two shapes."""
    a, b = list(a)[::-1], list(b)[::-1]
    for i in range(max(len(a), len(b))):
        x = a[i] if i < len(a) else 1
        y = b[i] if i < len(b) else 1
        if x != y and x != 1 and y != 1:
            return False
    return True


def pred(spec):
    """Harness predicate with Python's short-circuit semantics; may raise like the real one."""
    op = spec['op']
    if op == 'positive': return lambda v: v > 0
    if op == 'negative': return lambda v: v < 0
    if op == 'nonneg': return lambda v: v >= 0
    if op == 'nonpos': return lambda v: v <= 0
    if op == 'finite': return lambda v: math.isfinite(v)
    if op == 'empty': return lambda v: len(v) == 0
    if op == 'nonempty': return lambda v: len(v) != 0
    if op == 'val_range':
        lo, hi = spec.get('min'), spec.get('max')
        return lambda v: (lo is None or bool(v >= lo)) and (hi is None or bool(v <= hi))
    if op == 'len_range':
        lo, hi = spec.get('min'), spec.get('max')
        return lambda v: (lo is None or len(v) >= lo) and (hi is None or len(v) <= hi)
    if op == 'shape':
        want = tuple(spec['shape'])
        return lambda v: tuple(v.shape) == want
    if op == 'broadcastable':
        want = tuple(spec['shape'])
        return lambda v: _broadcastable(tuple(v.shape), want)
    if op == 'user':
        f = USER_FNS[spec['fn']]
        return lambda v: bool(f(v))
    if op in ('and', 'all'):
        ps = [pred(k) for k in spec['kids']]
        def f_and(v):
            for p in ps:
                if not p(v):
                    return False
            return True
        return f_and
    if op in ('or', 'any'):
        ps = [pred(k) for k in spec['kids']]
        def f_or(v):
            for p in ps:
                if p(v):
                    return True
            return False
        return f_or
    if op == 'not':
        p = pred(spec['kid'])
        return lambda v: not p(v)
    raise ValueError(op)
