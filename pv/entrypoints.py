"""
The ways IN and OUT other than pane.from_data / pane.into_data, as thunks, so that checks can demand that they all agree with the
everyday path: Converter objects used directly, the dataclass classmethods / methods, the readers and writers (streams, strings).
"""
import collections.abc
import io
import json

import yaml

from . import env
from .common import observe, same_outcome, plain_data
from .deepeq import deep_typed_eq


def jsonable(d, depth=0):
    if depth > 12:
        return False
    if d is None or type(d) in (bool, int, str):
        return True
    if type(d) is float:
        return d == d and d not in (float('inf'), float('-inf'))
    if type(d) is dict:
        return all(type(k) is str and jsonable(v, depth + 1) for k, v in d.items())
    if type(d) in (list, tuple):
        return all(jsonable(v, depth + 1) for v in d)
    return False


def _listify(d):
    if isinstance(d, collections.abc.Mapping):
        return {k: _listify(v) for k, v in d.items()}
    if isinstance(d, (list, tuple)):
        return [_listify(v) for v in d]
    return d


def _only_plain_carriers(v, depth=0):
    """dicts and lists only (a tuple or another carrier does not survive a text format as itself, and under Any the carrier is the value)."""
    if depth > 12:
        return False
    if type(v) is dict:
        return all(_only_plain_carriers(k, depth + 1) and _only_plain_carriers(x, depth + 1) for k, x in v.items())
    if type(v) is list:
        return all(_only_plain_carriers(x, depth + 1) for x in v)
    return not isinstance(v, (collections.abc.Mapping, collections.abc.Sequence)) or type(v) is str


def same_verdict_and_value(a, b):
    if a.kind != b.kind:
        return False, f"{a.kind} vs {b.kind}"
    if a.kind == 'value':
        ok, why = deep_typed_eq(a.val, b.val)
        ok2, why2 = deep_typed_eq(b.val, a.val)
        return ok and ok2, why or why2
    if a.kind == 'escape':
        return type(a.exc) is type(b.exc), 'different exception types'
    return True, None


def parse_points(T, v, is_dc=False):
    """[(name, thunk)] - every one of them is documented to behave like from_data(v, T)."""
    pts = [('make_converter(T).convert', lambda: env.make_converter(T).convert(v))]
    if is_dc:
        pts.append(('Cls.from_data', lambda: T.from_data(v)))
        # (Cls.from_obj is convert - serialise by the value's own type, then parse - and is compared with pane.convert, below)
    if _only_plain_carriers(v) and jsonable(v) and json.loads(json.dumps(v)) == v:
        jt, yt = json.dumps(v), yaml.safe_dump(v, sort_keys=False)
        if deep_typed_eq(_listify(v), yaml.safe_load(yt))[0]:
            pts.append(('io.from_yaml(stream)', lambda: env.m_io.from_yaml(io.StringIO(yt), T)))
            if is_dc:
                pts.append(('Cls.from_yamls', lambda: T.from_yamls(yt)))
        if deep_typed_eq(_listify(v), json.loads(jt))[0]:
            pts.append(('io.from_json(stream)', lambda: env.m_io.from_json(io.StringIO(jt), T)))
            if is_dc:
                pts.append(('Cls.from_jsons', lambda: T.from_jsons(jt)))
    return pts


def check_parse_agreement(ctx, oracle, sub, i, T, v, reference, describe_type, is_dc=False, sequence_data_ok=True):
    """reference = observe(from_data, v, T). Returns False after reporting the first disagreement."""
    points = parse_points(T, v, is_dc)
    if is_dc:
        conv_ref = observe(env.convert, v, T)
        got = observe(T.from_obj, v)
        ctx.count('entry_point_parses')
        ok, why = same_verdict_and_value(conv_ref, got)
        if not ok:
            ctx.violation(oracle, sub, i, {'type': describe_type, 'value': repr(v)[:300], 'entry_point': 'Cls.from_obj', 'pane.convert': conv_ref.brief(),
                                           'this_way_in': got.brief(), 'why': why}, mech='entry-point-differs:Cls.from_obj')
            return False
    for name, thunk in points:
        got = observe(thunk)
        ctx.count('entry_point_parses')
        ok, why = same_verdict_and_value(reference, got)
        if not ok:
            ctx.violation(oracle, sub, i, {'type': describe_type, 'value': repr(v)[:300], 'entry_point': name, 'from_data': reference.brief(), 'this_way_in': got.brief(),
                                           'why': why}, mech=f"entry-point-differs:{name}")
            return False
    return True


def output_points(T, x, d, is_dc=False, inferable=False):
    """[(name, thunk returning DATA)] - every one documented to write what into_data(x, T) writes (d)."""
    pts = [('make_converter(T).into_data', lambda: env.make_converter(T).into_data(x))]
    if is_dc:
        pts.append(('x.into_data()', lambda: x.into_data()))
    if inferable:
        pts.append(('into_data(x) [type inferred]', lambda: env.into_data(x)))
    dp = plain_data(d)
    if jsonable(dp) and json.loads(json.dumps(dp)) == _listify(dp):
        def wj():
            s = io.StringIO()
            env.m_io.write_json(x, s, ty=T)
            return json.loads(s.getvalue())
        pts.append(('json.loads(io.write_json(x, stream, ty=T))', wj))

        def wy():
            s = io.StringIO()
            env.m_io.write_yaml(x, s, ty=T)
            return yaml.safe_load(s.getvalue())
        if deep_typed_eq(_listify(dp), yaml.safe_load(yaml.safe_dump(_listify(dp))))[0]:
            pts.append(('yaml.safe_load(io.write_yaml(x, stream, ty=T))', wy))
        if is_dc:
            pts.append(('json.loads(x.write_json())', lambda: json.loads(x.write_json())))
            pts.append(('json.loads(x.write_json(stream))', lambda: (lambda s: (x.write_json(s), json.loads(s.getvalue()))[1])(io.StringIO())))
    return pts


def check_output_agreement(ctx, oracle, sub, i, T, x, d, describe_type, is_dc=False, inferable=False):
    for name, thunk in output_points(T, x, d, is_dc, inferable):
        got = observe(thunk)
        ctx.count('entry_point_outputs')
        ok = got.kind == 'value' and deep_typed_eq(_listify(plain_data(d)), _listify(plain_data(got.val)))[0]
        if not ok:
            ctx.violation(oracle, sub, i, {'type': describe_type, 'typed': repr(x)[:300], 'entry_point': name, 'into_data(x, T)': repr(d)[:300], 'this_way_out': got.brief()},
                          mech=f"entry-point-differs:{name.split('(')[0]}")
            return False
    return True
