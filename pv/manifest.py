"""Regenerate /verif/MANIFEST.json from the property modules that exist (python -m pv.manifest)."""
import importlib
import json
import os

ROOT = os.path.dirname(os.path.dirname(os.path.abspath(__file__)))
ALL = [f"C{i:02d}" for i in range(1, 21)]

BASELINE_OFF = ("cd /repo && /venv/bin/python -m pytest -ra -q -p no:cacheprovider --timeout=900 "
                "--continue-on-collection-errors")


def main():
    os.environ.setdefault('PANE_REPO', '/repo')
    checks, na = [], []
    for pid in ALL:
        path = os.path.join(ROOT, 'pv', 'props', f"{pid.lower()}.py")
        if not os.path.exists(path):
            na.append({'property_id': pid, 'reason': "check not built yet in this session (runtime monitoring does apply; see DESIGN.md)"})
            continue
        mod = importlib.import_module(f"pv.props.{pid.lower()}")
        checks.append({
            'property_id': pid,
            'quick_cmd': f"./check {pid} --tier quick",
            'thorough_cmd': f"./check {pid} --tier thorough",
            'evidence_file': f"/verif/evidence/{pid}.json",
            'replay_cmd_template': f"./check {pid} --replay {{path}}",
            'engine': 'pv',
            'level_claimed': {
                'category': getattr(mod, 'LEVEL', 'exploration'),
                'text': getattr(mod, 'LEVEL_TEXT', "Held on the executions observed: the real code is run under generated workloads while an oracle checks every execution; no claim beyond the inputs, configurations and histories actually produced (counts in the evidence file)."),
                'design_ref': f"DESIGN.md section 2, {pid}",
            },
            'level_note': '; '.join(getattr(mod, 'ASSUMPTIONS', [])) or 'oracle and generators of pv/ are the trusted base',
            'technique': getattr(mod, 'TECHNIQUE', 'runtime monitoring: generated workload + online oracle on observed executions'),
        })
    manifest = {
        'version': 1,
        'setup_cmd': "cd /verif && /venv/bin/python -B -m pv.setup",
        'hooks': {
            'guard': 'PANE_VERIF',
            'enable': "no source hooks are needed: monitors are installed from the harness (class-level wrappers, sys.monitoring); checks import pane from $PANE_REPO (default /repo) in a fresh interpreter per shard",
            'baseline_off_cmd': BASELINE_OFF,
            'source_commits': [],
            'add_only': True,
        },
        'engines': [{
            'name': 'pv', 'path': '/verif/pv',
            'serves_properties': [c['property_id'] for c in checks],
            'kind_free_text': "runtime monitoring harness: type/value/class/history generators, three-valued reference model, class-level monitors on pane converters and cache, sys.monitoring reach monitor, sharded runner",
        }],
        'checks': checks,
        'not_applicable': na,
        'notes': "exit 0 held / exit 1 VIOLATION / exit 2 INCONCLUSIVE (monitor blinded, watchdog, too few events). Known findings: /verif/known_findings.json.",
    }
    with open(os.path.join(ROOT, 'MANIFEST.json'), 'w') as f:
        json.dump(manifest, f, indent=1)
    print(f"MANIFEST.json: {len(checks)} checks, {len(na)} not_applicable")


if __name__ == '__main__':
    main()
