"""
Class-level monitors on pane's converters.

`install()` wraps `try_convert` on every Converter subclass that defines it (class level, so every
bound reference reaches it). The wrapper is transparent: it returns the very object returned and
re-raises the very exception raised. After the wrapped call it runs the registered observers under a
re-entrancy guard (shadow calls are not themselves shadowed).
"""
import threading

from . import env

_state = threading.local()
_installed = {}
observers = []          # callables(conv, val, outcome, result, exc) run under the guard
counts = {}


def _guarded():
    return getattr(_state, 'guard', 0) > 0


class guard:
    def __enter__(self):
        _state.guard = getattr(_state, 'guard', 0) + 1

    def __exit__(self, *a):
        _state.guard -= 1


def _all_converter_classes():
    seen, stack = [], [env.Converter]
    while stack:
        c = stack.pop()
        for s in c.__subclasses__():
            if s not in seen:
                seen.append(s)
                stack.append(s)
    return seen


def _wrap(cls):
    orig = cls.__dict__['try_convert']
    if getattr(orig, '_pv_wrapped', False):
        return

    def try_convert(self, val, _orig=orig):
        if _guarded() or not observers:
            return _orig(self, val)
        result = exc = None
        try:
            result = _orig(self, val)
            outcome = 'ok'
        except env.ParseInterrupt as e:
            outcome, exc = 'pi', e
        except BaseException as e:
            outcome, exc = 'other', e
        with guard():
            for ob in observers:
                ob(self, val, outcome, result, exc)
        if exc is not None:
            raise exc
        return result

    try_convert._pv_wrapped = True
    try_convert.__wrapped__ = orig
    try_convert.__qualname__ = getattr(orig, '__qualname__', 'try_convert')
    try_convert.__doc__ = orig.__doc__
    setattr(cls, 'try_convert', try_convert)
    _installed[cls] = orig


def install(extra=()):
    """Wrap every Converter subclass currently defined (plus `extra`). Idempotent; call again after
    the workload defines new converter classes."""
    n = 0
    for cls in list(_all_converter_classes()) + list(extra):
        if 'try_convert' in cls.__dict__ and not getattr(cls.__dict__['try_convert'], '__isabstractmethod__', False):
            _wrap(cls)
            n += 1
    return n


def uninstall():
    for cls, orig in list(_installed.items()):
        setattr(cls, 'try_convert', orig)
    _installed.clear()


def defining_class(conv):
    """The class in conv's MRO whose try_convert is in effect (for per-class accounting)."""
    for c in type(conv).__mro__:
        if 'try_convert' in c.__dict__:
            return c.__name__
    return type(conv).__name__
