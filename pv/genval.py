"""Value generators directed by the type AST: members, near-members, arbitrary interchange values."""
import collections
import collections.abc
import types

from . import model
from .tyast import Ty, py_class

SMALL_INTS_ONLY = False   # round-trip workloads avoid |n| >= 2**63 (numpy promotes such int arrays to float64)
INTS = (0, 1, -1, 2, 3, 5, 7, 10, 42, 2 ** 63, -2 ** 64, 255, 2 ** 31, 2 ** 53 + 1, -(2 ** 53) - 1, 2 ** 63 - 1, -2 ** 63, 10 ** 30, 256, 65536)
FLOATS = (0.0, -0.0, 1.5, -2.25, 1e308, float('inf'), float('-inf'), float('nan'), 0.1, 5.0, 7.0)
STRS = ('', 'a', 'abc', 'héllo', '日本語', 'a\x00b', '12', '1.5', '2023-09-05', 'x' * 40, 'yes', 'null', ' pad ',
        'line\nbreak', '𝒳', 'v1', 'k', 'ß', 'İ', 'e\u0301', '\u200b', 'A' * 300, '\t', 'ǅ', '٣')
BYTESV = (b'', b'ab', bytearray(b'xy'), b'\x00\xff', b'k')
DATES = ('2023-09-05', '1999-12-31', '2024-02-29', '20230905', '2023-W36-2', '2023W362')
TIMES = ('11:11:11', '00:00:00', '23:59:59.123456', '11:11:11+02:00', '05:06', '111111', 'T05:06')
DATETIMES = ('2023-09-05T11:11:11', '2023-09-05 11:11:11', '1999-12-31T23:59:59.999999', '2023-09-05T11:11:11+00:00',
             '2023-09-05', '20230905T111111', '2023-09-05T11', '20230905')
PATHS = ('a/b', '/abs/p', '', '.', 'x.txt', '../up', 'sp ace/ü', 'data/../x.txt', '/..', '~/data', '~', 'a/./b//c/')
PATTERNS = ('abc', 'a+b*', '(x|y)', '', r'\d{2,3}', '[a-z]+$')
BPATTERNS = (b'ab+', b'', bytearray(b'x.y'))
DECIMALS = (0, 5, -3, '1.5', 2.5, 'NaN', '1e5', '-0', '0.000001', 'Infinity')
FRACTIONS = (0, 5, '1/3', '2.5', 0.5, '-7/2', 3.25)

ADVERSARIAL_STR = ('a{4294967296}', '(', '\\', '1/0', 'nan', '1e400', '2023-13-45', '\x00', '[', '*', 'x{5,2}',
                   '24:00:00', '2023-02-30', '(?P<n>a)(?P<n>b)', '1_000', ' 1 ')


class CustomMap(collections.abc.Mapping):
    """Minimal Mapping carrier: no .copy(), no mutators."""

    def __init__(self, d):
        self._d = dict(d)

    def __getitem__(self, k):
        return self._d[k]

    def __iter__(self):
        return iter(self._d)

    def __len__(self):
        return len(self._d)

    def __repr__(self):
        return f"CustomMap({self._d!r})"


class CustomSeq(collections.abc.Sequence):
    """Minimal Sequence carrier."""

    def __init__(self, items):
        self._l = list(items)

    def __getitem__(self, i):
        return self._l[i]

    def __len__(self):
        return len(self._l)

    def __repr__(self):
        return f"CustomSeq({self._l!r})"

    def __eq__(self, other):
        return isinstance(other, CustomSeq) and self._l == other._l

    def __hash__(self):
        return hash(tuple(self._l))


def arbitrary(rng, depth=2, hashable=False):
    c = rng.random()
    if depth <= 0 or c < 0.55:
        pool = rng.choice((INTS, FLOATS, STRS, BYTESV if not hashable else (b'', b'ab'), (None,), (True, False), (1 + 2j,)))
        return rng.choice(pool)
    if c < 0.8 or hashable:
        items = [arbitrary(rng, depth - 1, hashable) for _ in range(rng.randint(0, 3))]
        return tuple(items) if hashable or rng.random() < 0.3 else items
    d = {}
    for _ in range(rng.randint(0, 3)):
        d[rng.choice(STRS + (1, 2.5, None, True, (1, 2)))] = arbitrary(rng, depth - 1)
    return d


def _seq(items, hashable):
    return tuple(items) if hashable else list(items)


def member(ty: Ty, rng, small=False, hashable=False, depth=0):
    """
    Interchange value intended to denote a member of `ty` (the model has the last word).
    hashable: the produced *input* value must be hashable (it will be used as a mapping key).
    """
    k = ty.k
    ch = rng.choice

    def sub(c, **kw):
        kw.setdefault('hashable', hashable)
        return member(c, rng, small=small, depth=depth + 1, **kw)

    if k == 'int': return ch(INTS[:8] if (small or SMALL_INTS_ONLY) else INTS)
    if k == 'float': return ch(FLOATS + INTS[:6]) if not small else ch((0.5, 2.0, 3))
    if k == 'complex': return ch((1 + 2j, 0j, 1.5, 3, complex('nan'), -1j))
    if k == 'bool': return ch((True, False))
    if k == 'str': return ch(STRS[:4] if small else STRS)
    if k == 'bytes' or k == 'bytearray': return ch((b'', b'ab', b'k') if hashable else BYTESV)
    if k == 'none': return None
    if k == 'decimal': return ch(DECIMALS)
    if k == 'fraction': return ch(FRACTIONS)
    if k == 'date': return ch(DATES)
    if k == 'time': return ch(TIMES)
    if k == 'datetime': return ch(DATETIMES)
    if k == 'path': return ch(PATHS)
    if k == 'pattern':
        return ch(BPATTERNS[:2] if hashable else BPATTERNS) if ty.x.get('of') == 'bytes' else ch(PATTERNS)
    if k == 'any': return arbitrary(rng, 2, hashable)
    if k == 'cc': return ch(('gb', 'us', 'cn', 'uk', 'gb', 'us', 'xx'))
    if k == 'sub':
        return member(Ty(ty.x['base']), rng, small, hashable)
    if k in ('list', 'seq', 'deque', 'set'):
        n = ch((0, 1, 2, 2, 3)) if depth < 3 else ch((0, 1))
        if depth < 2 and not small and not ty.a[0].a and rng.random() < 0.04:
            n = ch((8, 17, 33, 100, 257))      # lengths past any small threshold (leaf element types only, to bound the cost)
        items = [sub(ty.a[0]) for _ in range(n)]
        if k != 'set' and n >= 2 and rng.random() < 0.08:
            items[-1] = items[0]               # the very same object twice
        if k == 'set' and n > 1 and rng.random() < 0.2:
            items.append(items[0])
        return _seq(items, hashable)
    if k == 'tup':
        return _seq([sub(c) for c in ty.a], hashable)
    if k in ('dict', 'counter'):
        if hashable: return ()  # cannot make a hashable mapping; deliberately a non-member
        d = {}
        for _ in range(ch((0, 1, 2, 3))):
            kk = sub(ty.a[0], hashable=True)
            try:
                hash(kk)
            except TypeError:
                continue
            d[kk] = sub(ty.a[1], hashable=False) if k == 'dict' else ch((0, 1, 5))
        return d
    if k == 'struct':
        if hashable: return ()
        return {n: sub(c, hashable=False) for n, c in zip(ty.x['keys'], ty.a)}
    if k == 'union':
        return sub(ch(ty.a))
    if k == 'lit':
        return ch(ty.x['vals'])
    if k == 'enum':
        v = ch(ty.x['members'])[1]
        if isinstance(v, tuple) and not hashable and rng.random() < 0.5:
            return list(v)
        return v
    if k == 'cond':
        return sub(ty.a[0])
    if k == 'tagged':
        if hashable: return ()
        return tagged_member(ty, rng, small, depth)
    if k == 'dc':
        return dc_member(ty, rng, small, hashable, depth)
    if k == 'ndarray':
        dt = ty.x.get('dtype')
        leaf = {'int': lambda: ch((1, 2, 3, 0, -5)), 'bool': lambda: ch((True, False)), 'complex': lambda: ch((1 + 2j, 2, 0.5, -1j))}.get(
            dt, lambda: ch((1.5, 2, 0.0, -1.25, float('nan'))))
        shape = ch(((), (0,), (2,), (3,), (2, 2), (2, 3), (1, 2, 2), (2, 0)))
        def mk(sh):
            if not sh: return leaf()
            return [mk(sh[1:]) for _ in range(sh[0])]
        v = mk(shape)
        return v
    if k == 'vol':
        if rng.random() < 0.5:
            return sub(ty.a[0])
        return _seq([sub(ty.a[0]) for _ in range(ch((0, 1, 2)))], hashable)
    if k == 'range':
        return ch(([0, 10, 11], {'start': 0, 'end': 10, 'n': 11}, {'start': 0, 'end': 10, 'step': 2}, [1, 5, 5]))
    raise ValueError(k)


def dc_member(ty, rng, small=False, hashable=False, depth=0, layout=None, skip=()):
    S = ty.x['spec']
    fields = [f for f in S.ordered_fields() if f.init]
    in_format = S.opt('in_format')
    if layout is None:
        layout = rng.choice(in_format)
        if hashable and 'tuple' in in_format:
            layout = 'tuple'
    if layout == 'tuple':
        pos = [f for f in fields if not S.is_kw(f)]
        req = sum(1 for f in pos if not f.has_default())
        n = rng.randint(req, len(pos))
        items = [member(f.ty, rng, small, hashable, depth + 1) for f in pos[:n]]
        return _seq(items, hashable)
    if hashable:
        return ()
    d = {}
    for f in fields:
        if f.name in skip:
            continue
        if f.has_default() and rng.random() < 0.45:
            continue
        acc, _ = model.in_names(S, f)
        key = rng.choice(sorted(acc, key=repr))
        d[key] = member(f.ty, rng, small, False, depth + 1)
    if rng.random() < 0.5:
        items = list(d.items())
        rng.shuffle(items)
        d = dict(items)
    return d


def tagged_member(ty, rng, small=False, depth=0, variant=None):
    tagname, ext = ty.x['tag'], ty.x['external']
    i = rng.randrange(len(ty.a)) if variant is None else variant
    vty = ty.a[i]
    tagval = vty.x['spec'].tagval
    if ext is False:
        body = dc_member(vty, rng, small, False, depth + 1, layout='struct', skip=(tagname,))
        if not isinstance(body, dict):
            body = {}
        items = list(body.items())
        items.insert(rng.randint(0, len(items)), (tagname, tagval))
        return dict(items)
    body = dc_member(vty, rng, small, False, depth + 1, skip=(tagname,) if rng.random() < 0.8 else ())
    try:
        hash(tagval)
    except TypeError:
        return {}
    if ext is True:
        return {tagval: body}
    tk, ck = ext
    return {tk: tagval, ck: body} if rng.random() < 0.7 else {ck: body, tk: tagval}


# ---------------------------------------------------------------------------------------------
# near-members: one directed mutation at a random position of the value tree

WRONG_KIND = (None, True, False, 0, 1, 5, 2.5, float('nan'), 1 + 1j, '', 'abc', '12', '1.5', b'ab', bytearray(b'q'),
              [], [1], ['a', 1], (), {}, {'k': 1}, [[1, 2], [3]], 'ab', 10 ** 400, -0.0)


def _paths(v, path=(), out=None, depth=0):
    if out is None:
        out = []
    out.append(path)
    if depth > 5:
        return out
    if isinstance(v, collections.abc.Mapping):
        for kk in list(v.keys())[:6]:
            _paths(v[kk], path + (('k', kk),), out, depth + 1)
    elif model.is_seq(v):
        for i in range(min(len(v), 6)):
            _paths(v[i], path + (('i', i),), out, depth + 1)
    return out


def _rebuild(v, path, f):
    if not path:
        return f(v)
    (kind, key), rest = path[0], path[1:]
    if kind == 'k':
        d = dict(v.items())
        d[key] = _rebuild(v[key], rest, f)
        return d
    items = list(v)
    items[key] = _rebuild(v[key], rest, f)
    return tuple(items) if isinstance(v, tuple) else items


def _mutate_here(v, rng):
    c = rng.random()
    if isinstance(v, collections.abc.Mapping):
        d = dict(v.items())
        if c < 0.2 and d:
            del d[rng.choice(list(d.keys()))]
            return d
        if c < 0.4:
            d[rng.choice(('extra', 'zz9', 1, None, 'Alt', 'aka'))] = rng.choice(WRONG_KIND)
            return d
        if c < 0.55 and d:
            kk = rng.choice(list(d.keys()))
            val = d.pop(kk)
            d[(kk + '_x') if isinstance(kk, str) else 'renamed'] = val
            return d
        if c < 0.7:
            return list(d.items())
        if c < 0.8:
            return list(d.values())
        return rng.choice(WRONG_KIND)
    if model.is_seq(v):
        items = list(v)
        if c < 0.25 and items:
            del items[rng.randrange(len(items))]
            return items
        if c < 0.5:
            items.insert(rng.randint(0, len(items)), rng.choice(WRONG_KIND))
            return items
        if c < 0.6:
            return {i: x for i, x in enumerate(items)}
        if c < 0.7 and all(isinstance(x, str) and len(x) == 1 for x in items) and items:
            return ''.join(items)
        if c < 0.8:
            return {str(i): x for i, x in enumerate(items)}
        return rng.choice(WRONG_KIND)
    if isinstance(v, str) and c < 0.2:
        return list(v)
    if isinstance(v, str) and c < 0.35:
        return rng.choice(ADVERSARIAL_STR)
    if isinstance(v, str) and v and c < 0.6:
        # near-misses a lenient lookup would let through: other letter case, padding
        alt = [v.swapcase(), v.upper(), v.lower(), ' ' + v, v + ' ', v + '\n']
        alt = [a for a in alt if a != v]
        if alt:
            return rng.choice(alt)
    if isinstance(v, bool) and c < 0.3:
        return int(v)
    if type(v) is int and c < 0.25:
        return float(v) if abs(v) < 2 ** 53 else str(v)
    if type(v) is int and c < 0.4:
        return bool(v) if v in (0, 1) else str(v)
    if isinstance(v, float) and c < 0.25 and v == v and abs(v) != float('inf'):
        return int(v)
    if isinstance(v, (bytes, bytearray)) and c < 0.3:
        return v.decode('latin1')
    return rng.choice(WRONG_KIND)


def mutate(v, rng, n=1):
    for _ in range(n):
        paths = _paths(v)
        # prefer deeper positions
        path = max((rng.choice(paths) for _ in range(2)), key=len)
        try:
            v = _rebuild(v, path, lambda x: _mutate_here(x, rng))
        except Exception:
            v = rng.choice(WRONG_KIND)
    return v


# ---------------------------------------------------------------------------------------------
# carriers

def recarrier(v, rng, p=0.25, hashable=False):
    """Randomly replace dict/list carriers by other Mapping/Sequence implementations (deeply)."""
    if isinstance(v, collections.abc.Mapping):
        d = {}
        for kk, vv in v.items():
            k2 = recarrier(kk, rng, p, hashable=True) if isinstance(kk, tuple) else kk
            d[k2] = recarrier(vv, rng, p)
        if hashable or rng.random() >= p:
            return d
        return rng.choice((collections.OrderedDict, types.MappingProxyType, CustomMap, lambda x: x,
                           lambda x: collections.defaultdict(list, x), collections.UserDict, lambda x: collections.ChainMap(x, {})))(d)
    if model.is_seq(v):
        items = [recarrier(x, rng, p, hashable) for x in v]
        if hashable:
            return tuple(items)
        if rng.random() >= p:
            return tuple(items) if isinstance(v, tuple) else items
        if items and all(type(x) is int for x in items) and items == list(range(items[0], items[0] + len(items))) and rng.random() < 0.3:
            return range(items[0], items[0] + len(items))
        return rng.choice((tuple, list, collections.deque, CustomSeq, collections.UserList))(items)
    return v


def skeleton(v, depth=4):
    """Kind skeleton of a value, for distinct-case keys."""
    if depth == 0:
        return '_'
    if isinstance(v, collections.abc.Mapping):
        return type(v).__name__ + '{' + ','.join(sorted(f"{type(kk).__name__}:{skeleton(vv, depth - 1)}" for kk, vv in list(v.items())[:5])) + '}'
    if model.is_seq(v):
        return type(v).__name__ + '[' + ','.join(skeleton(x, depth - 1) for x in list(v)[:5]) + ']'
    if isinstance(v, float):
        return 'nan' if v != v else ('inf' if v in (float('inf'), float('-inf')) else 'float')
    if isinstance(v, str):
        return 'str0' if not v else 'str'
    if type(v) is int:
        return 'int' if abs(v) < 2 ** 62 else 'bigint'
    return type(v).__name__


def case_values(ty, rng, small=False):
    """One value of a random class: 45% member, 40% near-member, 15% arbitrary. Returns (class, value)."""
    c = rng.random()
    if c < 0.45:
        return 'member', recarrier(member(ty, rng, small), rng)
    if c < 0.85:
        v = member(ty, rng, small)
        return 'near', recarrier(mutate(v, rng, n=rng.choice((1, 1, 2, 3))), rng)
    return 'arbitrary', recarrier(arbitrary(rng, 3), rng)


MAP_CARRIERS = (
    ('dict', dict), ('OrderedDict', collections.OrderedDict), ('mappingproxy', lambda d: types.MappingProxyType(dict(d))),
    ('CustomMap', CustomMap), ('defaultdict', lambda d: collections.defaultdict(list, d)),
    ('UserDict', collections.UserDict), ('ChainMap', lambda d: collections.ChainMap(dict(d), {})),
)

BAD_TAGS = (['a'], {'x': 1}, None, float('nan'), True, 1, 'unknown-tag', ('a', 'b'), 0, '', b'v1', 2.0)


def tagged_layout_mutations(ty, v, rng):
    """Directed near-members of a tagged-union mapping `v`: wrong layout shapes and ill-kinded tags."""
    tagname, ext = ty.x['tag'], ty.x['external']
    if not isinstance(v, collections.abc.Mapping):
        return [v]
    d = dict(v)
    out = []
    bad = rng.choice(BAD_TAGS)
    # the text of a declared non-string tag ('2' for the tag 2) is not that tag
    texts = [str(m.x['spec'].tagval) for m in ty.a if not isinstance(m.x['spec'].tagval, (str, bytes))
             and not any(str(m.x['spec'].tagval) == o.x['spec'].tagval for o in ty.a)]
    if texts and rng.random() < 0.5:
        bad = rng.choice(texts)
    if ext is False:
        body = {k: x for k, x in d.items() if k != tagname}
        out.append(body)                                        # tag absent
        out.append({**body, tagname + '_x': d.get(tagname)})    # tag key renamed
        out.append({**body, tagname: bad})                      # ill-kinded / unknown tag
        out.append({tagname: d.get(tagname), **body, 'zz_extra': 1})
    elif ext is True:
        (tk, body), = d.items() if len(d) == 1 else [(None, {})]
        out.append({})                                          # no item
        out.append({**d, 'second': {}})                         # two items
        try:
            hash(bad)
            out.append({bad: body})                             # unknown / ill-kinded tag
        except TypeError:
            out.append({'unknown-tag': body})
        out.append({tk: [body]})
    else:
        t_r, c_r = ext
        tagv, body = d.get(t_r), d.get(c_r)
        out.append({t_r + '_x': tagv, c_r: body})               # two keys, tag key missing
        out.append({t_r: tagv, c_r + '_x': body})               # two keys, content key missing
        out.append({t_r: tagv})                                 # one key
        out.append({t_r: tagv, c_r: body, 'third': 0})          # stray third key
        out.append({t_r: bad, c_r: body})                       # ill-kinded / unknown tag
        out.append({c_r: tagv, t_r: body})                      # swapped
    return out
